"""C01 Request framing is unambiguous: aiohttp's request parser vs. a strict RFC 9112 reading."""
from __future__ import annotations

from hypothesis import strategies as st

from vlib import hyp, refhttp
from vlib.parsedrive import drive
from vlib.runner import Rec, Unit, Violation

PROPERTY = "C01"
LEVEL = "exploration"
RULE = (
    "case = byte stream: (a) grammar-generated valid pipelines of 1-4 requests (methods, target forms, versions, header "
    "fields with OWS/obs-text, Content-Length and chunked bodies with extensions and trailers), (b) one named smuggling "
    "mutation class applied at a generated position of a valid pipeline, (c) raw byte mutations; parser limits default "
    "or small.  Oracle: an independent strict RFC 9112 reader gives the list of requests (method, target bytes, version, "
    "ordered raw field list, body bytes, consumed span) or REJECT/DON'T-CARE at message k; aiohttp must deliver the same "
    "messages before k, reject at k when the reference rejects, and leave no byte unaccounted.  The same MUST-REJECT "
    "streams are sent to a real web.Server connection: a 4xx then close, handler never called for message k.  "
    "Non-trivial = stream carries a body or a mutation.  distinct = stream bytes."
)
ASSUMPTIONS = [
    "DON'T-CARE (three-valued oracle): HTTP major version != 1, CONNECT, unusual absolute-form authorities and schemes that "
    "do not start with a letter, duplicates of documented singleton headers other than Host/Content-Length/"
    "Transfer-Encoding, BWS before a chunk extension, a non-ASCII unknown transfer coding before a final chunked, malformed "
    "chunk framing inside an HTTP/1.0 chunked body (the message itself is decided: reject or the de-chunked body, verdict te10), "
    "bytes after a message that asked to close, Content-Length with more digits than any body could have",
    "for mutated and raw streams a rejection by aiohttp of something the reference accepts is counted (stricter_than_reference) but not a violation; for unmutated grammar output it is",
]


def compare(stream: bytes, cls: str, limits: dict | None = None) -> dict:
    ref_msgs, verdict = refhttp.strict_read(stream)
    # deliver message by message, and each head separately from its body: a message parsed in the same read as a later
    # error is dropped with it, which would hide how its framing was read
    cuts = tuple(sorted({m.end for m in ref_msgs if 0 < m.end < len(stream)} | {m.head_end for m in ref_msgs if m.head_end and 0 < m.head_end < len(stream)}))
    out = drive("request", stream, cuts, limits=limits or {}, feed_eof=False)
    info = {"verdict": verdict[0], "nref": len(ref_msgs), "stricter": False}
    if out.other_exc is not None:
        raise Violation(hyp.exc_key(out.other_exc, "non-http-exception"), f"class={cls}: {out.other_exc!r}")
    got = out.messages
    k = len(ref_msgs)
    what = verdict[0]

    def msg_equal(i: int, partial_body: bool = False) -> None:
        g, r = got[i], ref_msgs[i] if i < len(ref_msgs) else verdict[1]
        gp = g["path"].encode("utf-8", "surrogateescape")
        if g["method"] != r.method or gp != r.target or tuple(g["version"]) != r.version:
            raise Violation(f"request-line-differs/{cls}", f"message {i}: aiohttp ({g['method']!r}, {gp!r}, {g['version']}) reference ({r.method!r}, {r.target!r}, {r.version})")
        if list(g["raw_headers"]) != [(a, b) for a, b in r.headers]:
            raise Violation(f"fields-differ/{cls}", f"message {i}: aiohttp {list(g['raw_headers'])[:6]} reference {r.headers[:6]}")
        if partial_body:
            if not r.body.startswith(g["body"]) and g["body"] != r.body:
                raise Violation(f"body-differs/{cls}", f"message {i}: aiohttp body {g['body'][:40]!r} is not a prefix of {r.body[:40]!r}")
        elif g["body"] != r.body:
            raise Violation(f"body-differs/{cls}", f"message {i}: aiohttp body {len(g['body'])}B {g['body'][:40]!r} reference {len(r.body)}B {r.body[:40]!r}")
        elif g.get("payload_state") not in ("eof", "empty"):
            raise Violation(f"body-not-complete/{cls}", f"message {i}: payload state {g.get('payload_state')} after the whole message was fed")

    # messages before the decision point must be identical
    for i in range(min(k, len(got))):
        msg_equal(i)
    if what in ("ok", "upgrade"):
        if out.error is not None:
            if cls == "valid":
                raise Violation("rejected-valid", f"grammar-valid stream rejected: {out.error}: {out.error_msg[:100]} (after {len(got)} of {k} messages)")
            info["stricter"] = True
            return info
        if len(got) != k:
            raise Violation(f"message-count/{cls}", f"aiohttp delivered {len(got)} messages, the strict reading has {k}")
        if what == "upgrade":
            if not out.upgraded or out.tail != verdict[1]:
                raise Violation(f"upgrade-tail/{cls}", f"upgraded={out.upgraded} tail={out.tail[:30]!r} expected {verdict[1][:30]!r}")
    elif what == "incomplete":
        if out.error is not None:
            if cls == "valid":
                raise Violation("rejected-valid", f"incomplete valid stream rejected early: {out.error}: {out.error_msg[:100]}")
            info["stricter"] = True
            return info
        partial = verdict[1]
        if partial is not None and partial.head_end:
            if len(got) != k + 1:
                raise Violation(f"message-count/{cls}", f"head of message {k} is complete: aiohttp delivered {len(got)} messages")
            msg_equal(k, partial_body=True)
        elif len(got) != k:
            raise Violation(f"message-count/{cls}", f"aiohttp delivered {len(got)} messages; only {k} heads are complete")
    elif what == "reject":
        if out.error is None:
            # the defective element may still be incomplete from the parser's point of view (e.g. the
            # mutation removed the line end): give it the rest of a message and a follow-up request
            probe = drive("request", stream + b"\r\n\r\nGET /probe HTTP/1.1\r\nHost: p\r\n\r\n", cuts + (len(stream),), limits=limits or {}, feed_eof=False)
            if probe.error is not None and len(probe.messages) <= k + 1:
                info["late_reject"] = True
                return info
            got = probe.messages
            extra = f"; it delivered {len(got)} message(s) where the strict reading has {k} before the defect"
            raise Violation(f"accepted-malformed/{cls}", f"{verdict[1]}: aiohttp did not reject{extra}; last delivered: "
                            f"{(got[-1]['method'], got[-1]['path'][:30], got[-1]['body'][:20]) if got else None}")
        if len(got) > k:
            # the defective message itself was delivered before the error (e.g. defect in the body): head must still match
            pass
    elif what == "te10":
        # the last reference message is an HTTP/1.0 request with Transfer-Encoding: chunked: reject it, or deliver it with the
        # chunked-decoded body - never as a body-less request followed by requests parsed out of its chunk framing
        if len(got) >= k:
            pass  # msg_equal(k - 1) above has compared method, target, fields and the decoded body
        elif out.error is None:
            raise Violation(f"message-count/{cls}", f"HTTP/1.0 chunked request: aiohttp delivered {len(got)} messages and no error; the reading has {k}")
    else:  # dontcare
        if len(got) > k + 1:
            pass
    return info


def body(rec: Rec, case: dict) -> None:
    stream, cls = case["stream"], case["cls"]
    info = compare(stream, cls, case.get("limits"))
    nt = cls != "valid" or b"Content-Length" in stream or b"ransfer" in stream
    labels = [cls.split("/")[0], "verdict:" + info["verdict"]]
    if info["stricter"]:
        labels.append("stricter_than_reference")
    rec.case(stream, nt, labels)


@st.composite
def cases(draw, mode: str, cls: str | None = None):
    limits = draw(st.sampled_from([{}, {}, {}, {"max_line_size": 200, "max_field_size": 200, "max_headers": 30}]))
    if mode == "valid":
        pl = draw(refhttp.pipelines(max_n=4, max_body=120))
        stream = pl["bytes"]
        if draw(st.integers(0, 5)) == 0 and len(stream) > 4:
            stream = stream[: draw(st.integers(1, len(stream) - 1))]
        return {"stream": stream, "cls": "valid", "limits": limits}
    if mode == "mutated":
        m = draw(refhttp.mutated_pipelines(cls=cls, max_n=3, max_body=60))
        return {"stream": m["bytes"], "cls": m["cls"], "limits": limits}
    m = draw(refhttp.raw_mutations(max_n=2))
    return {"stream": m["bytes"], "cls": "raw", "limits": limits}


def unit_hyp(rec: Rec, n: int, offset: int, mode: str) -> None:
    hyp.run(rec, cases(mode), body, n, seed_offset=offset, max_root_causes=6)


def unit_classes(rec: Rec, n: int, offset: int, classes: list) -> None:
    for k, c in enumerate(classes):
        hyp.run(rec, cases("mutated", c), body, n, seed_offset=offset + k, max_root_causes=3)


def te10_streams() -> list[dict]:
    """HTTP/1.0 (and 0.9-style versions) requests that carry Transfer-Encoding: chunked - every combination of a small grid."""
    out = []
    bodies = [b"5\r\nhello\r\n0\r\n\r\n", b"0\r\n\r\n", b"DEAD /smuggled HTTP/1.1\r\nHost: evil\r\n\r\n",
              b"1c\r\nGET /inner HTTP/1.1\r\nHost: a\r\n\r\n\r\n0\r\n\r\n", b"3;x=y\r\nabc\r\n0\r\nT: v\r\n\r\n"]
    for version in (b"HTTP/1.0", b"HTTP/1.1"):
        for conn in (b"", b"Connection: keep-alive\r\n", b"Connection: close\r\n"):
            for te in (b"chunked", b"Chunked", b"gzip, chunked"):
                for host in (b"Host: a\r\n", b""):
                    for bd in bodies:
                        for follow in (b"", b"GET /next HTTP/1.1\r\nHost: a\r\n\r\n"):
                            stream = b"POST /u " + version + b"\r\n" + host + conn + b"Transfer-Encoding: " + te + b"\r\n\r\n" + bd + follow
                            out.append({"stream": stream, "cls": "te10" if version == b"HTTP/1.0" else "te11-grid"})
    return out


def unit_te10(rec: Rec) -> None:
    for case in te10_streams():
        try:
            body(rec, case)
        except Violation as v:
            if v.key in rec.muted:
                continue
            rec.fail(v.key, v.msg, case)
            rec.muted.add(v.key)
    rec.exhaustive = True


def units(tier: str, seed: int) -> list[Unit]:
    n = 700 if tier == "quick" else 15000
    us = []
    for i in range(4):
        us.append(Unit(f"valid{i}", unit_hyp, {"n": n, "offset": i, "mode": "valid"}))
    for i in range(3):
        us.append(Unit(f"raw{i}", unit_hyp, {"n": n, "offset": 10 + i, "mode": "raw"}))
    names = sorted(refhttp.MUTATORS)
    per = 220 if tier == "quick" else 4000
    for i in range(0, len(names), 2):
        us.append(Unit(f"classes-{names[i]}", unit_classes, {"n": per, "offset": 100 + i * 5, "classes": names[i:i + 2]}))
    us.append(Unit("te10-grid", unit_te10, {}))
    return us


def replay(rec: Rec, case: dict) -> None:
    if isinstance(case, (bytes, bytearray)):
        case = {"stream": bytes(case), "cls": "replay"}
    compare(case["stream"], case.get("cls", "replay"), case.get("limits"))
