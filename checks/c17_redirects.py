"""C17 Redirects confine credentials and terminate."""
from __future__ import annotations

import asyncio
import base64
import io
import os
import itertools
import warnings

from hypothesis import strategies as st

from vlib import hyp, memnet
from vlib.detloop import Quiescent, new_loop
from vlib.runner import Rec, Unit, Violation

PROPERTY = "C17"
LEVEL = "exploration"
RULE = (
    "A real ClientSession on an in-memory connector talks to scripted origin servers (http a.test, https a.test, "
    "http a.test:8080, http b.test, https c.test) that log every request they receive.  A case is: start origin (with or "
    "without user:pw@), a chain of up to 6 hops (status 301/302/303/307/308, target origin, Location form absolute / "
    "absolute-path / relative-path / query-only / scheme-relative / with embedded credentials, optional Set-Cookie), an "
    "optional terminal (ftp:, mailto:, unparsable, missing, empty Location), method GET/HEAD/POST/PUT/DELETE, body none / "
    "bytes / seekable file / async generator, the caller secrets supplied (Authorization, Cookie and Proxy-Authorization "
    "headers, cookies=), preset jar cookies per host, max_redirects.  exhaustive: every chain up to length 2 (quick) / 3 "
    "(thorough) over origins x statuses x secret kinds; sampled: Hypothesis chains up to length 6 with every knob.  Oracle "
    "(flow model over the servers' logs, independent of aiohttp): a caller-supplied secret appears only in requests made "
    "before the first origin change (never again afterwards, A->B->A included); Basic credentials taken from a URL appear "
    "only while the chain stays on that URL's origin; the jar cookies in each request are exactly those of the request's "
    "host (preset + Set-Cookie seen so far); method and body follow the 303 / 301,302+POST / 307,308 table; at most "
    "max_redirects requests are made and TooManyRedirects is raised beyond; non-HTTP and unparsable targets raise the "
    "documented errors without a further request; resp.history lists the hop statuses in order, every one released, and "
    "the connector holds no acquired connection afterwards.  Non-trivial = >= 2 hops with an origin change while a secret "
    "is in play.  distinct = case JSON."
)
ASSUMPTIONS = [
    "an origin is (scheme, host, port) as in RFC 6454; cookies are host-scoped (not port/scheme scoped) as in RFC 6265",
    "presence of caller secrets is required only on the first request; later same-origin hops are checked for leaks only",
    "TLS is not simulated: https origins are plain in-memory connections keyed as ssl by the connector",
]

warnings.simplefilter("ignore")

ORIGINS = [
    ("http", "a.test", 80),
    ("https", "a.test", 443),
    ("http", "a.test", 8080),
    ("http", "b.test", 80),
    ("https", "c.test", 443),
    ("https", "a.test", 8080),  # same host and port as an http origin above: only the scheme differs
    ("http", "sub.a.test", 80),  # a sub-domain of a.test: host-only jar cookies of a.test do not go there
]
STATUSES = [301, 302, 303, 307, 308]
SECRET_AUTH = "Bearer SECRET-AUTH-0123"
SECRET_COOKIE_HDR = "hdrck=SECRET-HDRCOOKIE"
SECRET_PROXY = "Basic SECRET-PROXYAUTH"
SECRET_KW = ("kwck", "SECRET-KWCOOKIE")
BODY = b"payload-0123456789"


def origin_str(o) -> str:
    scheme, host, port = o
    default = 443 if scheme == "https" else 80
    return f"{scheme}://{host}" + ("" if port == default else f":{port}")


def basic(user: str, pw: str) -> str:
    return "Basic " + base64.b64encode(f"{user}:{pw}".encode("latin1")).decode()


class OriginPeer(memnet.ScriptPeer):
    def __init__(self, world: "World", origin: tuple) -> None:
        super().__init__()
        self.world = world
        self.origin = origin
        self.buf = b""

    def data_received(self, data: bytes) -> None:
        self.buf += data
        while True:
            req, rest = parse_request(self.buf)
            if req is None:
                return
            self.buf = rest
            resp = self.world.on_request(self, req)
            self.send(resp)
            if b"Connection: close" in resp:
                self.close()
                return


def parse_request(buf: bytes):
    k = buf.find(b"\r\n\r\n")
    if k < 0:
        return None, buf
    head = buf[:k].decode("latin1").split("\r\n")
    method, target, _ = head[0].split(" ", 2)
    headers = []
    for line in head[1:]:
        n, _, v = line.partition(":")
        headers.append((n.strip(), v.strip()))
    hd = {n.lower(): v for n, v in headers}
    rest = buf[k + 4:]
    if hd.get("transfer-encoding", "").lower() == "chunked":
        body = b""
        pos = 0
        while True:
            e = rest.find(b"\r\n", pos)
            if e < 0:
                return None, buf
            size = int(rest[pos:e].split(b";")[0], 16)
            if size == 0:
                t = rest.find(b"\r\n\r\n", e)
                if rest[e + 2:e + 4] == b"\r\n":
                    t = e
                    end = e + 4
                elif t >= 0:
                    end = t + 4
                else:
                    return None, buf
                rest = rest[end:]
                break
            if len(rest) < e + 2 + size + 2:
                return None, buf
            body += rest[e + 2:e + 2 + size]
            pos = e + 2 + size + 2
    else:
        n = int(hd.get("content-length", "0") or "0")
        if len(rest) < n:
            return None, buf
        body, rest = rest[:n], rest[n:]
    return {"method": method, "target": target, "headers": headers, "body": body}, rest


class World:
    def __init__(self, case: dict) -> None:
        self.case = case
        self.log: list[dict] = []
        self.loop = new_loop()
        self.conn = None

    def on_request(self, peer: OriginPeer, req: dict) -> bytes:
        k = len(self.log)
        req["origin"] = peer.origin
        self.log.append(req)
        chain = self.case["chain"]
        if k < len(chain):
            hop = chain[k]
            loc = self.location(k, peer.origin)
            out = f"HTTP/1.1 {hop['status']} Redirect\r\n"
            if loc is not None:
                out += f"Location: {loc}\r\n"
            if hop.get("set_cookie"):
                out += f"Set-Cookie: hop{k}=HOPCOOKIE-{k}\r\n"
            body = b"moved" if hop.get("resp_body") else b""
            out += f"Content-Length: {len(body)}\r\n"
            if hop.get("close"):
                out += "Connection: close\r\n"
            return out.encode() + b"\r\n" + body
        fs = self.case.get("final_status", 200)
        return f"HTTP/1.1 {fs} X\r\nContent-Length: 4\r\n\r\ndone".encode()

    def location(self, k: int, cur: tuple) -> str | None:
        hop = self.case["chain"][k]
        form = hop["form"]
        tgt = ORIGINS[hop["to"]]
        path = f"/p{k + 1}"
        if form == "abs":
            return origin_str(tgt) + path
        if form == "creds":
            return f"{tgt[0]}://u{k}:pw{k}@{tgt[1]}" + ("" if tgt[2] in (80, 443) else f":{tgt[2]}") + path
        if form == "abspath":
            return path
        if form == "relpath":
            return f"p{k + 1}"
        if form == "query":
            return f"?q={k + 1}"
        if form == "schemerel":
            return "//" + tgt[1] + ("" if tgt[2] in (80, 443) else f":{tgt[2]}") + path
        if form == "ftp":
            return "ftp://" + tgt[1] + path
        if form == "mailto":
            return "mailto:someone@" + tgt[1]
        if form in ("ws", "wss", "tcp", "unix", "HTTPX"):
            # schemes a connector may know about but that are not HTTP: not a redirect target either
            return {"ws": "ws", "wss": "wss", "tcp": "tcp", "unix": "unix", "HTTPX": "httpx"}[form] + "://" + tgt[1] + path
        if form == "invalid":
            return "http://[::1" + path
        if form == "nohost":
            return "http://:80" + path
        if form == "colon-login":
            return f"http://user%3Aname:pw@{tgt[1]}" + path  # a login that cannot be put into a Basic credential
        if form == "empty":
            return ""
        if form == "missing":
            return None
        raise AssertionError(form)


def effective_target(cur: tuple, hop: dict) -> tuple | None:
    """Origin the client must go to next (model), or None when the hop is terminal."""
    form = hop["form"]
    if form in ("abs", "creds"):
        return ORIGINS[hop["to"]]
    if form in ("abspath", "relpath", "query"):
        return cur
    if form == "schemerel":
        t = ORIGINS[hop["to"]]
        port = t[2]
        # scheme-relative keeps the current scheme; a default port follows the scheme
        if t[2] in (80, 443):
            port = 443 if cur[0] == "https" else 80
        return (cur[0], t[1], port)
    return None


TERMINAL_FORMS = {"ftp": "NonHttpUrlRedirectClientError", "mailto": "NonHttpUrlRedirectClientError", "ws": "NonHttpUrlRedirectClientError",
                  "wss": "NonHttpUrlRedirectClientError", "tcp": "NonHttpUrlRedirectClientError", "unix": "NonHttpUrlRedirectClientError",
                  "HTTPX": "NonHttpUrlRedirectClientError", "invalid": "InvalidUrlRedirectClientError",
                  "nohost": "InvalidUrlRedirectClientError", "colon-login": "InvalidUrlRedirectClientError", "empty": None, "missing": None}


def run_case(case: dict):
    import aiohttp
    from yarl import URL

    w = World(case)
    loop = w.loop
    MemConnector = memnet.make_connector_class()
    out: dict = {}
    try:
        asyncio.set_event_loop(loop)

        def peer_factory(req, idx):
            u = req.url
            o = (u.scheme, u.host, u.port)
            return OriginPeer(w, o), None, None

        async def go():
            conn = MemConnector(peer_factory)
            w.conn = conn
            jar = aiohttp.CookieJar()
            if case["jar"]:
                for o in ORIGINS:
                    jar.update_cookies({"jar_" + o[1].split(".")[0]: "JARCOOKIE-" + o[1]}, URL(origin_str(o) + "/"))
            session = aiohttp.ClientSession(connector=conn, cookie_jar=jar)
            try:
                start = ORIGINS[case["start"]]
                url = origin_str(start) + "/p0"
                if case["start_creds"]:
                    url = f"{start[0]}://su:spw@{start[1]}" + ("" if start[2] in (80, 443) else f":{start[2]}") + "/p0"
                headers = {}
                if "auth" in case["secrets"] and not case["start_creds"]:
                    headers["Authorization"] = SECRET_AUTH
                if "cookie_hdr" in case["secrets"]:
                    headers["Cookie"] = SECRET_COOKIE_HDR
                if "proxy_auth" in case["secrets"]:
                    headers["Proxy-Authorization"] = SECRET_PROXY
                kw: dict = {}
                if "cookies_kw" in case["secrets"]:
                    kw["cookies"] = {SECRET_KW[0]: SECRET_KW[1]}
                body = case["body"]
                if body == "bytes":
                    kw["data"] = BODY
                elif body == "file":
                    kw["data"] = io.BytesIO(BODY)
                elif body in ("diskfile_rb", "diskfile_text"):
                    # a real file object (binary / text mode): re-sent from its start position on every 307/308 hop
                    import tempfile

                    tf = tempfile.NamedTemporaryFile(prefix="c17_", delete=False)
                    tf.write(BODY)
                    tf.close()
                    out["_tmp"] = tf.name
                    fobj = open(tf.name, "rb") if body == "diskfile_rb" else open(tf.name, "r", encoding="utf-8")
                    out["_fobj"] = fobj
                    kw["data"] = fobj
                elif body == "stringio":
                    kw["data"] = io.StringIO(BODY.decode())
                elif body == "gen":
                    async def gen():
                        yield BODY[:7]
                        yield BODY[7:]
                    kw["data"] = gen()
                try:
                    if case.get("entry") == "module":
                        # the module-level convenience function (its own throw-away session around one request)
                        cm = aiohttp.request(case["method"], url, headers=headers, max_redirects=case["max_redirects"], allow_redirects=True, connector=conn, raise_for_status=bool(case.get("raise_for_status")), **kw)
                        resp = await cm.__aenter__()
                        out["_cm"] = cm
                    else:
                        resp = await session.request(case["method"], url, headers=headers, max_redirects=case["max_redirects"], allow_redirects=True, raise_for_status=bool(case.get("raise_for_status")), **kw)
                except Exception as e:  # noqa: BLE001
                    out["exc"] = e
                    out["acquired_after_exc"] = len(conn._acquired)
                    return
                out["status"] = resp.status
                out["history"] = [(h.status, h._released, h.connection is None) for h in resp.history]
                out["url"] = str(resp.url)
                out["text"] = await resp.read()
                resp.release()
                await asyncio.sleep(0)
                out["acquired"] = len(conn._acquired)
            finally:
                await session.close()
                if out.get("_cm") is not None:
                    await out.pop("_cm")._session.close()

        try:
            loop.drive(go(), max_time=1000)
        except Quiescent:
            raise Violation("request-hangs", f"the redirected request never finishes; log={[(r['origin'], r['method'], r['target']) for r in w.log]}; case={case}")
        return w, out
    finally:
        if out.get("_fobj") is not None:
            out.pop("_fobj").close()
        if out.get("_tmp"):
            try:
                os.unlink(out.pop("_tmp"))
            except OSError:
                pass
        asyncio.set_event_loop(None)
        loop.shutdown()


def cookie_pairs(req: dict) -> dict[str, str]:
    out = {}
    for n, v in req["headers"]:
        if n.lower() == "cookie":
            for part in v.split(";"):
                k, _, val = part.strip().partition("=")
                if k:
                    out[k] = val.strip('"')
    return out


def header_values(req: dict, name: str) -> list[str]:
    return [v for n, v in req["headers"] if n.lower() == name.lower()]


def check_case(rec: Rec, case: dict) -> None:
    w, out = run_case(case)
    chain = case["chain"]
    log = w.log
    M = case["max_redirects"]
    secrets = case["secrets"]
    exc = out.get("exc")
    excname = type(exc).__name__ if exc is not None else None
    desc = f"requests={[(origin_str(r['origin']), r['method'], r['target']) for r in log]} result={excname or out.get('status')}; case={case}"

    # ---- model walk
    cur = ORIGINS[case["start"]]
    method = case["method"]
    has_body = case["body"] != "none"
    same_origin_so_far = True
    url_auth: tuple | None = (basic("su", "spw"), cur) if case["start_creds"] else None
    expect: list[dict] = []
    jar_by_host: dict[str, dict[str, str]] = {}
    if case["jar"]:
        for o in ORIGINS:
            jar_by_host.setdefault(o[1], {})["jar_" + o[1].split(".")[0]] = "JARCOOKIE-" + o[1]
    end = None  # how the model says it ends: ("ok", status) | ("exc", name)
    k = 0
    while True:
        e = {"origin": cur, "method": method, "body": BODY if has_body else b"", "caller_ok": same_origin_so_far,
             "url_auth": url_auth[0] if (url_auth and url_auth[1] == cur) else None, "jar": dict(jar_by_host.get(cur[1], {}))}
        expect.append(e)
        if k >= len(chain):
            fs = case.get("final_status", 200)
            end = ("exc", "ClientResponseError") if (case.get("raise_for_status") and fs >= 400) else ("ok", fs)
            break
        hop = chain[k]
        if hop.get("set_cookie"):
            jar_by_host.setdefault(cur[1], {})[f"hop{k}"] = f"HOPCOOKIE-{k}"
        # redirect counter
        if M and k + 1 >= M:
            end = ("exc", "TooManyRedirects")
            break
        # method/body table
        st_ = hop["status"]
        if (st_ == 303 and method != "HEAD") or (st_ in (301, 302) and method == "POST"):
            method = "GET"
            has_body = False
        else:
            if has_body and case["body"] == "gen":
                end = ("exc", "ClientPayloadError")
                break
        form = hop["form"]
        if form in TERMINAL_FORMS:
            name = TERMINAL_FORMS[form]
            end = ("exc", name) if name else ("ok", st_)
            break
        nxt = effective_target(cur, hop)
        if nxt != cur:
            same_origin_so_far = False
        if form == "creds":
            url_auth = (basic(f"u{k}", f"pw{k}"), nxt)
        elif nxt != cur:
            url_auth = None
        cur = nxt
        k += 1

    # ---- number of requests
    if M and len(log) > M:
        raise Violation("too-many-requests", f"{len(log)} requests were made with max_redirects={M}; {desc}")
    if len(log) > len(expect):
        raise Violation("unexpected-request", f"{len(log)} requests were made, the chain allows {len(expect)}; extra: {origin_str(log[len(expect)]['origin'])} {log[len(expect)]['target']}; {desc}")

    # ---- per request: leaks, cookies, method/body
    for i, (r, e) in enumerate(zip(log, expect)):
        where = f"request #{i} to {origin_str(r['origin'])}{r['target']}"
        if r["origin"] != e["origin"]:
            raise Violation("wrong-target", f"{where}: the chain leads to {origin_str(e['origin'])}; {desc}")
        host = header_values(r, "Host")
        auths = header_values(r, "Authorization")
        pauths = header_values(r, "Proxy-Authorization")
        cks = cookie_pairs(r)
        raw = repr(r["headers"])
        # caller secrets
        for tag, present in (("auth", SECRET_AUTH in auths), ("proxy_auth", SECRET_PROXY in pauths), ("cookie_hdr", "SECRET-HDRCOOKIE" in raw),
                             ("cookies_kw", "SECRET-KWCOOKIE" in raw)):
            if present and not e["caller_ok"]:
                raise Violation(f"secret-leak/{tag}", f"{where} carries the caller's {tag} secret after the chain left {origin_str(ORIGINS[case['start']])}; {desc}")
            if i == 0 and tag in secrets and not present and not (tag == "auth" and case["start_creds"]):
                raise Violation(f"secret-not-sent/{tag}", f"the first request does not carry the caller's {tag}; headers={r['headers']}; {desc}")
        # URL credentials
        for a in auths:
            if a == SECRET_AUTH:
                continue
            if a != e["url_auth"]:
                raise Violation("secret-leak/url-credentials", f"{where} carries Authorization {a!r}; credentials valid here: {e['url_auth']!r}; {desc}")
        if e["url_auth"] and e["url_auth"] not in auths and i == 0:
            raise Violation("secret-not-sent/url-credentials", f"{where}: URL credentials not sent; {desc}")
        # jar cookies: exactly those of this host
        for name, val in cks.items():
            if name in ("hdrck", SECRET_KW[0]):
                continue
            if e["jar"].get(name) != val:
                raise Violation("cookie-leak/jar", f"{where} carries jar cookie {name}={val}, which belongs to another host (expected {sorted(e['jar'])}); {desc}")
        for name, val in e["jar"].items():
            if cks.get(name) != val:
                raise Violation("cookie-missing/jar", f"{where} lacks jar cookie {name} (sent {sorted(cks)}); jar cookies must be re-selected for each hop; {desc}")
        # method / body
        if r["method"] != e["method"]:
            raise Violation("method-table", f"{where}: method {r['method']}, the documented table gives {e['method']}; {desc}")
        if r["body"] != e["body"]:
            raise Violation("body-table", f"{where}: body {r['body']!r}, expected {e['body']!r}; {desc}")
        if not has_body and i > 0:
            # a request that never had a body does not grow the headers of one on its way through the redirects
            # (what the first request carried by itself - aiohttp gives a bodiless POST a Content-Type - is not the subject)
            first = {k.lower() for k, _v in log[0]["headers"]} if log[0]["method"] == r["method"] else set()
            grown = [(k, v) for k, v in r["headers"] if k.lower() not in first and (k.lower() in ("content-type", "content-encoding", "transfer-encoding")
                     or (k.lower() == "content-length" and r["method"] in ("GET", "HEAD")))]
            if grown:
                raise Violation("body-table/entity-headers-on-bodiless-request", f"{where}: the caller sent no body, yet this request carries {grown}; {desc}")
        if host and host[0].split(":")[0] != r["origin"][1]:
            raise Violation("host-header", f"{where}: Host header {host[0]!r}; {desc}")

    # ---- how it ended
    if end[0] == "exc":
        if excname is None:
            raise Violation("missing-error/" + end[1], f"expected {end[1]}, got status {out.get('status')}; {desc}")
        names = [c.__name__ for c in type(exc).__mro__]
        if end[1] not in names:
            raise Violation("wrong-error/" + end[1], f"expected {end[1]}, got {excname}: {exc}; {desc}")
        if len(log) != len(expect):
            raise Violation("request-count", f"{len(log)} requests before {excname}, expected {len(expect)}; {desc}")
        if out.get("acquired_after_exc"):
            raise Violation("connection-not-released", f"{out['acquired_after_exc']} connection(s) still acquired after {excname}; {desc}")
        if end[1] == "ClientResponseError":
            # raised by raise_for_status for the final response: the hops that led there are its history
            hist = [h.status for h in exc.history]
            want = [h["status"] for h in chain]
            if exc.status != case["final_status"] or hist != want:
                raise Violation("history", f"ClientResponseError(status={exc.status}).history statuses {hist}, hops were {want}; {desc}")
        if end[1] == "TooManyRedirects":
            hist = [h.status for h in exc.history]
            if hist != [h["status"] for h in chain[:len(hist)]] or len(hist) != M:
                raise Violation("history", f"TooManyRedirects.history statuses {hist}, hops were {[h['status'] for h in chain[:M]]}; {desc}")
    else:
        if excname is not None:
            raise Violation(hyp.exc_key(exc, "unexpected-error"), f"the chain ends in a response but the request raised {excname}: {exc}; {desc}")
        if out["status"] != end[1]:
            raise Violation("final-status", f"final status {out['status']}, expected {end[1]}; {desc}")
        if len(log) != len(expect):
            raise Violation("request-count", f"{len(log)} requests, expected {len(expect)}; {desc}")
        hist = [h[0] for h in out["history"]]
        want = [h["status"] for h in chain[:len(expect) - 1]]
        if hist != want:
            raise Violation("history", f"resp.history statuses {hist}, hops were {want}; {desc}")
        for idx, (_, released, noconn) in enumerate(out["history"]):
            if not (released and noconn):
                raise Violation("history-not-released", f"intermediate response #{idx} is not released (released={released}, connection dropped={noconn}); {desc}")
        if out["acquired"]:
            raise Violation("connection-not-released", f"{out['acquired']} connection(s) still acquired after the final response was read and released; {desc}")

    changes = sum(1 for a, b in zip(expect, expect[1:]) if a["origin"] != b["origin"])
    nt = len(log) >= 3 and changes >= 1 and (bool(secrets) or case["start_creds"] or case["jar"])
    labels = [f"end:{end[1]}", f"hops:{len(log) - 1}", f"origin-changes:{min(changes, 3)}"]
    rec.case(case, nt, labels)


# ----------------------------------------------------------------------------------------------------------------------

def unit_exhaustive(rec: Rec, length: int, secret: str, shard: int, nshards: int) -> None:
    rec.exhaustive = True
    i = 0
    hops = [(s, t) for s in STATUSES for t in range(len(ORIGINS))]
    if length >= 4:
        # length 4 is enumerated over a reduced alphabet: one status per row of the method/body table, four origins
        hops = [(s, t) for s in (302, 303, 307) for t in (0, 1, 3, 4)]
    for L in range(1, length + 1):
        for combo in itertools.product(hops, repeat=L):
            for start in (0, 3):
                i += 1
                if i % nshards != shard:
                    continue
                if rec.expired():
                    rec.exhaustive = False
                    return
                chain = [{"status": s, "to": t, "form": "abs", "set_cookie": secret == "jar" and (j % 2 == 0)} for j, (s, t) in enumerate(combo)]
                case = {"start": start, "start_creds": secret == "start_creds", "chain": chain, "method": "POST" if secret in ("auth", "jar") else "PUT" if secret == "proxy_auth" else "GET",
                        "body": "bytes" if secret in ("auth", "jar", "proxy_auth", "cookie_hdr") else "none",
                        "secrets": [secret] if secret in ("auth", "cookie_hdr", "proxy_auth", "cookies_kw") else [], "jar": secret == "jar", "max_redirects": 10}
                try:
                    check_case(rec, case)
                except Violation as v:
                    if rec.is_known(v.key):
                        rec.known_hits[v.key] += 1
                        continue
                    if v.key in rec.muted:
                        continue
                    rec.fail(v.key, v.msg, case)
                    rec.muted.add(v.key)


@st.composite
def sampled_cases(draw):
    n = draw(st.integers(0, 6))
    chain = []
    for j in range(n):
        form = draw(st.sampled_from(["abs", "abs", "abs", "creds", "abspath", "relpath", "query", "schemerel"]))
        chain.append({"status": draw(st.sampled_from(STATUSES)), "to": draw(st.integers(0, len(ORIGINS) - 1)), "form": form,
                      "set_cookie": draw(st.booleans()), "resp_body": draw(st.booleans()), "close": draw(st.integers(0, 4)) == 0})
    if n and draw(st.integers(0, 3)) == 0:
        chain[-1]["form"] = draw(st.sampled_from(sorted(TERMINAL_FORMS)))
    secrets = draw(st.lists(st.sampled_from(["auth", "cookie_hdr", "proxy_auth", "cookies_kw"]), unique=True, max_size=4))
    start_creds = draw(st.booleans()) and "auth" not in secrets
    method = draw(st.sampled_from(["GET", "GET", "HEAD", "POST", "PUT", "PATCH", "DELETE"]))
    body = draw(st.sampled_from(["none", "bytes", "file", "gen", "diskfile_rb", "diskfile_text", "stringio"])) if method != "HEAD" else "none"
    entry = draw(st.sampled_from(["session", "session", "session", "module"]))
    return {"start": draw(st.integers(0, len(ORIGINS) - 1)), "start_creds": start_creds, "chain": chain, "method": method, "body": body,
            "secrets": sorted(secrets), "jar": draw(st.booleans()) and entry == "session", "max_redirects": draw(st.sampled_from([10, 10, 1, 2, 3, 4, 6])),
            "entry": entry, "final_status": draw(st.sampled_from([200, 200, 200, 404, 500])), "raise_for_status": draw(st.booleans())}


def unit_sampled(rec: Rec, n: int, offset: int) -> None:
    hyp.run(rec, sampled_cases(), check_case, n, seed_offset=offset, max_root_causes=6)


def units(tier: str, seed: int) -> list[Unit]:
    us = []
    length = 2 if tier == "quick" else 3
    for secret in ("auth", "cookie_hdr", "proxy_auth", "cookies_kw", "start_creds", "jar"):
        nsh = 1 if tier == "quick" else 6
        for sh in range(nsh):
            us.append(Unit(f"exh-{secret}-{sh}", unit_exhaustive, {"length": length, "secret": secret, "shard": sh, "nshards": nsh}))
    if tier == "thorough":
        for secret in ("auth", "start_creds", "jar"):
            for sh in range(4):
                us.append(Unit(f"exh4-{secret}-{sh}", unit_exhaustive, {"length": 4, "secret": secret, "shard": sh, "nshards": 4}))
    n = 1500 if tier == "quick" else 12000
    for i in range(10):
        us.append(Unit(f"sampled{i}", unit_sampled, {"n": n, "offset": i}))
    return us


def replay(rec: Rec, case: dict) -> None:
    check_case(rec, case)
