"""C05 Server connection: each request answered once, in order, or connection closed."""
from __future__ import annotations

import asyncio
import logging

from hypothesis import strategies as st

from vlib import hyp, memnet, refhttp
from vlib.detloop import new_loop
from vlib.runner import Rec, Unit, Violation

PROPERTY = "C05"
LEVEL = "exploration"
RULE = (
    "case = one server connection: a pipeline of 1..40 requests (none / Content-Length / chunked bodies, depth around "
    "the 32-message queue cap and its half), optional malformed or hostile element after request k (smuggling mutation "
    "classes, hostile targets, oversized lines, garbage), client->server segmentation plan, per-request handler "
    "behaviour (return, return after k yields / virtual sleep, HTTPException, Exception, TimeoutError, raise after a "
    "partial write, ignore body, read body, streamed response, non-response), optional peer disconnect after a "
    "generated number of loop iterations.  Oracle (history invariants on the in-memory transport log): server output "
    "splits (independent framer) into well-formed responses, count <= requests (+1 terminal 4xx), j-th response belongs "
    "to j-th request (marker + expected status), unparsable input => 4xx then close, at quiescence not(open and "
    "unanswered complete request), loop exception handler never called, queued parsed messages <= cap.  Non-trivial = "
    "depth >= 2, or a handler failure, a malformed element or a disconnect.  distinct = canonical case."
)
ASSUMPTIONS = [
    "low-level web.Server with a handler table keyed by an X-Id request header; asyncio FIFO scheduling on the virtual-time loop",
    "the queue length is read from RequestHandler._messages when present (observation only)",
    "a handler that fails after a partial write may leave a truncated last response followed by close",
]

logging.getLogger("aiohttp.server").disabled = True
logging.getLogger("aiohttp.access").disabled = True
logging.getLogger("aiohttp.web").disabled = True

OK_KINDS = ("ret", "yield", "sleep", "read_body", "read_small", "ignore_body", "stream", "stream_cl", "payload", "aiter")
STATUS = {"prepare_fails": {500}, "http_exc": {403}, "exc": {500}, "timeout": {504}, "non_response": {500}, "partial_raise": {200}, "partial_timeout": {200},
          "partial_http_exc": {200}, "prepared_raise": {200}, "prepared_timeout": {200}, "prepared_http_exc": {200}}
FAILS_AFTER_HEAD = ("partial_raise", "partial_timeout", "partial_http_exc", "prepared_raise", "prepared_timeout", "prepared_http_exc")


BAIT = b"GET /smuggled HTTP/1.1\r\nHost: a\r\nX-Id: 999\r\n\r\n"


def _truncated_deflate_request() -> bytes:
    import zlib

    comp = zlib.compress(b"payload " * 40)[:-9]  # cut before the final block ends: complete by Content-Length, undecodable
    return b"POST /coded HTTP/1.1\r\nHost: a\r\nContent-Encoding: deflate\r\nContent-Length: %d\r\n\r\n" % len(comp) + comp


def build_request(i: int, r: dict) -> bytes:
    head = f"{r.get('method', 'POST')} /p{i} HTTP/1.1\r\nHost: a\r\nX-Id: {i}\r\n"
    if r.get("pad"):
        head += "X-Pad: " + "p" * r["pad"] + "\r\n"
    bk = r.get("body", "none")
    n = r.get("n", 0)
    # body bytes that would read as a request of their own if the framing were ever lost
    data = (BAIT * (n // len(BAIT) + 1))[:n]
    if r.get("upgrade") and bk != "none":
        # an upgrade offer on a request with a body (declined by the handler): the body still belongs to this request
        head += "Upgrade: websocket\r\nConnection: upgrade\r\n"
    if bk == "cl_deflate":
        # a compressed body (decoded size n, mostly zeros): the parser inflates it and is paused and resumed by the reader's
        # flow control several times within the one read that also holds the requests behind it
        import zlib

        comp = zlib.compress(b"z" * n)
        return (head + f"Content-Encoding: deflate\r\nContent-Length: {len(comp)}\r\n\r\n").encode() + comp
    if bk == "cl":
        return (head + f"Content-Length: {n}\r\n\r\n").encode() + data
    if bk == "chunked":
        half = n // 2
        out = (head + "Transfer-Encoding: chunked\r\n\r\n").encode()
        for part in (data[:half], data[half:]):
            if part:
                out += f"{len(part):x}\r\n".encode() + part + b"\r\n"
        return out + b"0\r\n\r\n"
    if bk == "chunked1":
        # one byte per chunk: few bytes but many chunk boundaries (the reader also pauses on their number)
        out = (head + "Transfer-Encoding: chunked\r\n\r\n").encode()
        for k in range(n):
            out += b"1\r\n" + data[k:k + 1] + b"\r\n"
        return out + b"0\r\n\r\n"
    if r.get("close"):
        head += "Connection: close\r\n"
    if r.get("upgrade"):
        # an upgrade offer that the handler declines by answering normally
        head += "Upgrade: websocket\r\nConnection: upgrade\r\n"
    return (head + "\r\n").encode()


BAD_ELEMENTS = [
    b"GET http://[::1 HTTP/1.1\r\nHost: a\r\n\r\n",
    b"GET http://a:99999999/ HTTP/1.1\r\nHost: a\r\n\r\n",
    b"GET http://a:b/ HTTP/1.1\r\nHost: a\r\n\r\n",
    b"GET http://\xff/ HTTP/1.1\r\nHost: a\r\n\r\n",
    b"GET / HTTP/1.1\r\nHost: a\r\nContent-Length: +5\r\n\r\nhello",
    b"GET / HTTP/1.1\r\nHost: a\r\nContent-Length: 5\r\nTransfer-Encoding: chunked\r\n\r\n0\r\n\r\n",
    b"GET / HTTP/1.1\r\nHost: a\r\nTransfer-Encoding: chunked\r\n\r\nzz\r\n",
    b"POST / HTTP/1.1\r\nHost: a\r\nTransfer-Encoding: chunked\r\n\r\n\xd9\xa10\r\n\r\n",
    b"POST / HTTP/1.1\r\nHost: a\r\nTransfer-Encoding: chunked\r\n\r\n\xff\r\n\r\n",
    b"POST / HTTP/1.1\r\nHost: a\r\nTransfer-Encoding: chunked\r\n\r\n5;\xff=\xfe\r\nhello\r\n0\r\n\r\n" b"GET /\xfe",
    b"GET / HTTP/1.1\r\nHost: a\r\nTransfer-Encoding: chunked\r\n\r\n3\r\nabcXX",
    b"GET / HTTP/1.1\r\nHost : a\r\n\r\n",
    b"GET / HTTP/1.1\r\n\r\n",
    b"GET /\nx HTTP/1.1\r\nHost: a\r\n\r\n",
    b"\x16\x03\x01\x02\x00\x01\x00\x01\xfc\x03\x03",
    b"GET / HTTP/1.1\r\nHost: a\r\nX: " + b"v" * 9000 + b"\r\n\r\n",
    b"GET /" + b"a" * 9000 + b" HTTP/1.1\r\nHost: a\r\n\r\n",
    b"GET / HTTP/1.1\nHost: a\n\n",
    b"FOO\r\n\r\n",
    b"GET / HTTP/1.1\r\nHost: a\r\nContent-Length: " + b"9" * 5000 + b"\r\n\r\n",
    b"GET \xff HTTP/1.1\r\nHost: a\r\n\r\n",
    b"GET \xed\xa0\x80x HTTP/1.1\r\nHost: a\r\n\r\n",
    b"G\xc3\xa9T / HTTP/1.1\r\nHost: a\r\n\r\n",
    b"GET / HTTP/1.1\r\nH\xffst: a\r\n\r\n",
    b"POST / HTTP/1.1\r\nHost: a\r\nTransfer-Encoding: chunked\r\n\r\n0\r\n" + b"T: v\r\n" * 200 + b"\r\n",
    _truncated_deflate_request(),
    _truncated_deflate_request() + b"POST /next HTTP/1.1\r\nHost: a\r\nContent-Length: %d\r\n\r\n" % len(BAIT) + BAIT,
    b"OPTIONS * HTTP/1.1\r\nHost: a\r\n\r\n",
    b"GET * HTTP/1.1\r\nHost: a\r\n\r\n",
    b"CONNECT a:80 HTTP/1.1\r\nHost: a\r\n\r\n",
    b"GET / HTTP/1.1\r\nHost: a\r\nUpgrade: websocket\r\nConnection: upgrade\r\n\r\nGET /after HTTP/1.1\r\nHost: a\r\n\r\n",
]


def execute(case: dict) -> dict:
    from aiohttp import web

    reqs = case["requests"]
    loop = new_loop()
    loop.max_iters = 300000  # cases are small: a busy loop is reported after 3e5 iterations, not 3e6
    log: list = []
    handled: list[int] = []
    stats = {"responses": 0, "max_queue": 0}
    try:
        async def handler(request):
            if request.pre_handler_error is not None:
                raise request.pre_handler_error  # what web.Application._handle does
            try:
                i = int(request.headers.get("X-Id", "-1"))
            except ValueError:
                i = -1
            handled.append(i)
            if request.path == "/smuggled":
                stats["smuggled"] = f"{request.method} {request.path_qs} (X-Id {i})"
            if len(handled) > 3 * len(reqs) + 40 and not stats.get("runaway"):
                # far more handler calls than requests on the wire: something is replayed; stop it here, judged below
                stats["runaway"] = len(handled)
                if request.transport is not None:
                    request.transport.abort()
            r = reqs[i] if 0 <= i < len(reqs) else {"h": case.get("bad_handler", "ret")}  # the malformed element carries no id
            kind = r.get("h", "ret")
            hdr = {"X-Resp-Id": str(i)}
            if kind == "yield":
                for _ in range(r.get("k", 1)):
                    await asyncio.sleep(0)
            elif kind == "sleep":
                await asyncio.sleep(r.get("t", 1.0))
            elif kind == "http_exc":
                raise web.HTTPForbidden(text="no", headers=hdr)
            elif kind == "exc":
                raise RuntimeError("boom")
            elif kind == "timeout":
                raise asyncio.TimeoutError()
            elif kind == "prepare_fails":
                # a response whose preparation fails after the writer was set up for it (chunking, compression): the 500 that
                # goes out instead must be a well-formed message of its own
                resp = web.StreamResponse(headers=hdr)
                resp.enable_chunked_encoding()
                if r.get("k", 0) % 2:
                    resp.enable_compression()
                resp.headers["X-Bad"] = "a\r\nInjected: 1"
                await resp.prepare(request)
                await resp.write(b"never")
                return resp
            elif kind == "non_response":
                return None if r.get("k", 0) % 2 == 0 else "string"
            elif kind == "read_body":
                data = await request.read()
                return web.Response(text=f"r{i}:{len(data)}", headers=hdr)
            elif kind == "read_small":
                # the body in small pieces (a line-oriented or record-oriented consumer): many reads, each below the low-water mark
                total = 0
                while True:
                    piece = await request.content.read(16)
                    if not piece:
                        break
                    total += len(piece)
                return web.Response(text=f"r{i}:{total}", headers=hdr)
            elif kind in ("stream", "stream_cl", "partial_raise", "partial_timeout", "partial_http_exc", "prepared_raise", "prepared_timeout", "prepared_http_exc"):
                resp = web.StreamResponse(status=r.get("status", 200), headers=hdr)
                if kind == "stream_cl":
                    resp.content_length = 6
                await resp.prepare(request)
                # the head is on the wire: whatever happens now, no second response may be written into this one
                if kind == "prepared_raise":
                    raise RuntimeError("after-prepare")
                if kind == "prepared_timeout":
                    raise asyncio.TimeoutError()
                if kind == "prepared_http_exc":
                    raise web.HTTPNotFound(text="late")
                await resp.write(b"abc")
                if kind == "partial_raise":
                    raise RuntimeError("mid-stream")
                if kind == "partial_timeout":
                    raise asyncio.TimeoutError()
                if kind == "partial_http_exc":
                    raise web.HTTPNotFound(text="late")
                await asyncio.sleep(0)
                await resp.write(b"def")
                await resp.write_eof()
                return resp
            if kind == "payload":
                # a body that becomes a Payload object (file-like), not bytes
                import io

                return web.Response(status=r.get("status", 200), body=io.BytesIO(b"abcdef"), headers=hdr)
            if kind == "aiter":
                async def gen():
                    yield b"abc"
                    await asyncio.sleep(0)
                    yield b"def"

                return web.Response(status=r.get("status", 200), body=gen(), headers=hdr)
            return web.Response(text=f"r{i}", headers=hdr)

        box: dict = {}

        async def setup():
            box["server"] = web.Server(handler, **case.get("server_kw", {}))

        loop.drive(setup())
        server = box["server"]
        proto = server()
        peer = memnet.ScriptPeer()
        ct, st_ = memnet.connect_protocols(loop, log, peer, proto, c2s=memnet.Plan(case.get("cuts") or []))
        ct.burst = case.get("burst", 1)

        stream = bytearray()
        bad_at = case.get("bad_at")
        for i, r in enumerate(reqs):
            if bad_at == i:
                stream += case["bad"]
            stream += build_request(i, r)
        if bad_at is not None and bad_at >= len(reqs):
            stream += case["bad"]
        stream = bytes(stream)
        peer.send(stream)

        cap = None
        try:
            from aiohttp.web_protocol import MAX_MSG_QUEUE_SIZE as cap  # type: ignore[no-redef]
        except Exception:  # noqa: BLE001
            cap = None

        def sample() -> None:
            if stats.get("smuggled"):
                raise Violation("body-bytes-handled-as-request", f"the handler was called for {stats['smuggled']}: those bytes are the body of a request on the wire, "
                                f"nobody sent them as a request")
            if stats.get("runaway"):
                raise Violation("request-handled-repeatedly", f"the handler was called {stats['runaway']} times for {len(reqs)} request(s) on the wire (last ids {handled[-5:]}): a request is being replayed")
            q = getattr(proto, "_messages", None)
            for _m, pl in list(q or ()):
                # a body nobody reads yet (its request waits in the queue) stays within its reader's flow-control window,
                # whatever the handler of an earlier request on the connection is reading meanwhile
                hw, sz = getattr(pl, "_high_water", None), getattr(pl, "_size", 0)
                if hw and sz > 2 * hw + 2 * 65536:
                    raise Violation("unread-body-over-high-water", f"the body of a queued request holds {sz} decoded bytes unread (high-water mark {hw}): reading was resumed on its behalf by another request's reader")
            if q is not None and cap:
                stats["max_queue"] = max(stats["max_queue"], len(q))
                if len(q) > cap:
                    raise Violation("queue-over-cap", f"{len(q)} parsed-but-unhandled requests queued, cap {cap}")

        disc = case.get("disconnect_at")
        steps = 0
        for steps in range(1, 4000):
            loop.step()
            sample()
            if disc is not None and steps == disc:
                ct.close() if case.get("disc_kind", "close") == "close" else st_.reset_by_peer()
            if not loop.has_ready() and not st_.out and not ct.out:
                break
        # phase A: everything that happens within 100 s of virtual time (lingering close 10 s, handler sleeps <= 20 s),
        # but not the keep-alive timeout: this is where "open, unanswered, nobody working" is visible
        t_end = loop.time() + 100.0
        for _ in range(400):
            loop.run_until_idle()
            sample()
            nt = loop.next_timer()
            if nt is None or nt > t_end:
                break
            loop._vtime = max(loop._vtime, nt)
        loop.run_until_idle()
        open_after_100s = not st_.closing
        answered_after_100s = bytes(peer.received)
        # liveness probe: a connection that is still open after a stream that ended at a message boundary, with every
        # handler through, must take the next request (or be closed) - "open, idle and deaf" is the stuck state of the property
        if (open_after_100s and disc is None and bad_at is None and not any(r.get("upgrade") or r.get("close") for r in reqs)
                and refhttp.strict_read(stream)[1][0] == "ok" and len(handled) >= len(reqs)):
            mark = len(peer.received)
            n_handled = len(handled)
            peer.send(b"GET /probe HTTP/1.1\r\nHost: a\r\nX-Id: 9999\r\n\r\n")
            t_probe = loop.time() + 30.0
            for _ in range(200):
                loop.run_until_idle()
                if len(peer.received) > mark or st_.closing:
                    break
                nt = loop.next_timer()
                if nt is None or nt > t_probe:
                    break
                loop._vtime = max(loop._vtime, nt)
            loop.run_until_idle()
            got = bytes(peer.received[mark:])
            if not got and not st_.closing:
                raise Violation("open-but-deaf", f"the connection is open and idle after {len(reqs)} answered request(s), but a further request gets no response within 30 s "
                                f"(server transport reading paused: {st_.reading_paused}; protocol _reading_paused={getattr(proto, '_reading_paused', None)}, "
                                f"queue-paused={getattr(proto, '_msg_queue_paused', None)})")
            # keep the accounting below about the generated pipeline only
            del peer.received[mark:]
            del handled[n_handled:]
            stats["probed"] = True
        # phase B: let every remaining timer fire (keep-alive 3630 s ...)
        for _ in range(200):
            loop.run_until_idle()
            sample()
            nt = loop.next_timer()
            if nt is None or nt - loop.time() > 4000:
                break
            loop._vtime = max(loop._vtime, nt)
        loop.run_until_idle()

        out = bytes(peer.received)
        ref_msgs, verdict = refhttp.strict_read(stream)
        # the upgrade offers in these streams are declined by the handler: what follows them is read as further requests
        all_msgs = list(ref_msgs)
        v = verdict
        while v[0] == "upgrade" and v[1]:
            more, v = refhttp.strict_read(v[1])
            if not more:
                break
            all_msgs.extend(more)
        head_idx = tuple(i for i, m in enumerate(all_msgs) if m.method == "HEAD")
        resps, problem = refhttp.frame_responses(out, head_request_indexes=head_idx, closed=st_.closing)
        if problem and head_idx:
            # a terminal 400 may take the place of a HEAD request that was parsed in the same read as the garbage after it:
            # that 400 is not an answer to the HEAD and carries a body
            for k in range(len(head_idx) - 1, -1, -1):
                r2, p2 = refhttp.frame_responses(out, head_request_indexes=head_idx[:k], closed=st_.closing)
                if not p2 and len(r2) > head_idx[k] and r2[head_idx[k]].status == 400 and r2[head_idx[k]] is r2[-1]:
                    resps, problem = r2, p2
                    break
        if problem and bytes(case.get("bad") or b"").startswith(b"HEAD "):
            # a HEAD whose *body* is the defect: its head is fine, so the handler may have answered it (without a body)
            # before the defect was read; the reference reading stops before it and does not list it
            r2, p2 = refhttp.frame_responses(out, head_request_indexes=head_idx + (len(all_msgs),), closed=st_.closing)
            if not p2:
                resps, problem = r2, p2
        if problem:
            raise Violation("malformed-output", f"server output is not a sequence of well-formed responses: {problem}")
        finals = [r for r in resps if r.status >= 200 or not r.complete]
        complete_finals = [r for r in finals if r.complete]
        for r in finals[:-1]:
            if not r.complete:
                raise Violation("interleaved-or-truncated", "an incomplete response is followed by more output")
        stats["responses"] = len(complete_finals)

        # how many requests could the server have seen?
        n_valid = len(ref_msgs)
        if len(finals) > len(reqs) + (case.get("bad_n", 1) if bad_at is not None else 0):
            raise Violation("too-many-responses", f"{len(finals)} responses for {len(reqs)} requests: statuses {[r.status for r in finals]}")
        # order + identity: j-th final response belongs to the j-th request in wire order
        order = list(range(len(reqs)))
        j_bad = bad_at if bad_at is not None else None
        seq: list = []  # expected per response slot: request index or "bad"
        for i in range(len(reqs)):
            if j_bad == i:
                seq.append("bad")
            seq.append(i)
        if j_bad is not None and j_bad >= len(reqs):
            seq.append("bad")
        bad_is_reject = case.get("bad_verdict") == "reject"
        bad_slot = seq.index("bad") if "bad" in seq else None
        for j, r in enumerate(finals):
            if j >= len(seq):
                break
            who = seq[j]
            mark = r.get(b"x-resp-id")
            is_last = j == len(finals) - 1
            # the terminal 4xx for an unparsable element may take the place of requests that were parsed in the
            # same read as the element (they are dropped with it): allowed only as the very last response
            if bad_slot is not None and j <= bad_slot and mark is None and r.status == 400 and is_last and who != "bad":
                break
            if who == "bad":
                if bad_is_reject:
                    if not (400 <= r.status < 500):
                        raise Violation("malformed-not-4xx", f"malformed element answered with {r.status} (responses so far {[x.status for x in finals]})")
                    if not is_last:
                        raise Violation("response-after-4xx", f"output continues after the 4xx for unparsable input: {[x.status for x in finals]}")
                break  # after an undecided element the mapping of later responses is not fixed
            if mark is not None and mark != str(who).encode():
                raise Violation("response-order", f"response #{j} carries marker {mark!r}, expected request {who}; statuses {[x.status for x in finals]}")
            kind = reqs[who].get("h", "ret")
            exp = STATUS.get(kind, {200})
            if kind in ("stream", "stream_cl", "payload", "aiter"):
                exp = {reqs[who].get("status", 200)}
            if kind == "read_body" and reqs[who].get("body") == "cl_deflate" and reqs[who].get("n", 0) > 1024 ** 2:  # (read_small reads the stream itself: no size limit applies)
                exp = {413}  # client_max_size (1 MiB) applies to the decoded size
            if r.status not in exp:
                raise Violation(f"unexpected-status/{kind}", f"request {who} ({kind}) answered with {r.status}, expected {sorted(exp)}")
            if r.complete and kind in OK_KINDS and r.status == 200:
                want = {"ret": f"r{who}", "yield": f"r{who}", "sleep": f"r{who}", "ignore_body": f"r{who}", "stream": "abcdef", "stream_cl": "abcdef", "payload": "abcdef", "aiter": "abcdef"}.get(kind)
                is_head = reqs[who].get("method") == "HEAD"
                if is_head and r.body:
                    raise Violation("head-response-with-body", f"request {who} (HEAD, {kind}): {len(r.body)} body bytes follow the header section")
                if want is not None and not is_head and r.body != want.encode():
                    raise Violation("response-body", f"request {who} ({kind}): body {r.body[:40]!r}, expected {want!r}")
                if kind in ("read_body", "read_small") and not is_head and r.body != f"r{who}:{reqs[who].get('n', 0) if reqs[who].get('body', 'none') != 'none' else 0}".encode():
                    raise Violation("request-body-length", f"request {who}: handler saw {r.body!r}")
        # malformed input is the client's error: no 5xx unless a handler of this pipeline fails by itself
        if not any(r.get("h") in ("exc", "non_response", "timeout", "prepare_fails") + FAILS_AFTER_HEAD for r in reqs):
            bad5 = [x.status for x in finals if x.status >= 500]
            if bad5:
                raise Violation("client-error-answered-5xx", f"statuses {[x.status for x in finals]}: a 5xx although no handler fails by itself "
                                f"(handlers {[r.get('h') for r in reqs]}; malformed element: {bytes(case.get('bad') or b'')[:80]!r})")
        # unparsable input => 4xx and close (when every earlier request was answered normally with keep-alive)
        if bad_is_reject and disc is None:
            before = [reqs[i] for i in range(min(bad_at, len(reqs)))]
            if all(b.get("h", "ret") in ("ret", "yield", "read_body", "stream") and not b.get("close") for b in before):
                if not finals or not (400 <= finals[-1].status < 500) or len(finals) > len(before) + 1:
                    raise Violation("malformed-not-answered", f"unparsable element after {len(before)} good requests: responses {[x.status for x in finals]}, transport closed={st_.closing}")
                if not st_.closing:
                    raise Violation("no-close-after-4xx", "server left the connection open after answering unparsable input")
            if any(h == -1 for h in handled):
                pass
        # never stuck: open connection, complete request(s) unanswered, nothing running (observed before the
        # keep-alive timeout gets a chance to hide it)
        if open_after_100s and disc is None:
            r100, _p = refhttp.frame_responses(answered_after_100s, head_request_indexes=head_idx, closed=False)
            answered = len([r for r in r100 if r.complete and r.status >= 200])
            expected_min = n_valid if verdict[0] in ("ok", "incomplete") else None
            if verdict[0] == "upgrade" and v[0] in ("ok", "incomplete"):
                expected_min = len(all_msgs)  # declined upgrades: the requests pipelined behind them count too
            if expected_min is not None and answered < expected_min:
                raise Violation("stuck-open", f"connection still open 100 s after the last byte with {expected_min} complete requests received and only {answered} answered; handled={len(handled)}")
        if loop.exc_contexts:
            ctx = loop.exc_contexts[0]
            e = ctx.get("exception")
            raise Violation(hyp.exc_key(e, "loop-exception") if e else "loop-exception", f"{ctx.get('message')}: {e!r}"[:300])
        alive = [t for t in asyncio.all_tasks(loop) if not t.done()]
        if alive and st_.closing and disc is None and not any(r.get("h") == "sleep" for r in reqs):
            # connection closed by the server but a handler/connection task is still pending for ever
            if loop.next_timer() is None:
                raise Violation("task-left-behind", f"{len(alive)} task(s) still pending after the connection closed and no timer left")
        stats["handled"] = len(handled)
        return stats
    finally:
        loop.shutdown()


def body(rec: Rec, case: dict) -> None:
    stats = execute(case)
    reqs = case["requests"]
    failing = any(r.get("h", "ret") not in ("ret", "yield") for r in reqs)
    nt = len(reqs) >= 2 or failing or case.get("bad_at") is not None or case.get("disconnect_at") is not None
    labels = [f"depth:{min(len(reqs) // 8 * 8, 40)}"]
    labels += sorted({"h:" + r.get("h", "ret") for r in reqs})
    if case.get("bad_at") is not None:
        labels.append("malformed")
    if case.get("disconnect_at") is not None:
        labels.append("disconnect")
    if case.get("burst", 1) > 1:
        labels.append("burst")
    if any(r.get("upgrade") for r in reqs):
        labels.append("declined_upgrade")
    if stats["max_queue"] >= 16:
        labels.append("queue>=16")
    if stats.get("probed"):
        labels.append("liveness-probe")
    if (case.get("server_kw") or {}).get("read_bufsize"):
        labels.append("small-read-buffer")
    if (case.get("server_kw") or {}).get("lingering_time") == 0:
        labels.append("no-lingering")
    rec.case(case, nt, labels)


# ------------------------------------------------------------------ generators
HANDLERS = ["read_small", "ret", "ret", "ret", "yield", "sleep", "http_exc", "exc", "timeout", "non_response", "read_body", "ignore_body", "stream", "stream_cl",
            "partial_raise", "partial_timeout", "payload", "aiter", "partial_http_exc", "prepared_raise", "prepared_timeout", "prepared_http_exc", "prepare_fails"]


@st.composite
def cases(draw, deep: bool = False, with_bad: bool = False):
    n = draw(st.sampled_from([15, 16, 17, 31, 32, 33, 40]) if deep else st.integers(1, 6))
    reqs = []
    for i in range(n):
        h = draw(st.sampled_from(HANDLERS if not deep else ["ret", "ret", "ret", "ret", "yield", "read_body", "ignore_body"]))
        bk = draw(st.sampled_from(["none", "none", "cl", "chunked", "chunked1"] + (["cl_deflate"] if not with_bad else [])))
        r = {"h": h, "body": bk, "n": draw(st.sampled_from([0, 1, 5, 70] + ([300, 300] if deep else []))) if bk != "none" else 0}
        if bk == "chunked1":
            r["n"] = draw(st.sampled_from([4, 5, 6, 9, 12, 70]))
        if bk == "cl_deflate":
            r["n"] = draw(st.sampled_from([70, 5000, 300_000, 1_500_000] if not deep else [70, 5000]))
        # the same handler serves HEAD (what add_get() registers) and may answer with a status that has no body:
        # whatever it writes, the message on the wire ends with its header section
        r["method"] = draw(st.sampled_from(["POST", "POST", "POST", "GET", "HEAD", "HEAD", "PUT"])) if not with_bad else "POST"
        if h in ("stream", "stream_cl", "payload", "aiter"):
            r["status"] = draw(st.sampled_from([200, 200, 200, 204, 304]))
        if h == "yield":
            r["k"] = draw(st.integers(1, 4))
        if h == "sleep":
            r["t"] = draw(st.sampled_from([0.5, 11.0, 20.0]))
        if h in ("non_response", "prepare_fails"):
            r["k"] = draw(st.integers(0, 1))
        if bk == "none" and i == n - 1 and draw(st.integers(0, 4)) == 0:
            r["close"] = True
        elif not deep and not with_bad and draw(st.integers(0, 5)) == 0:
            r["upgrade"] = True
            if bk != "none":
                r["n"] = draw(st.sampled_from([1, 5, 70]))
        reqs.append(r)
    case = {"requests": reqs, "cuts": draw(st.one_of(st.just([]), st.lists(st.integers(1, 60), min_size=1, max_size=6), st.just([1])))}
    if with_bad:
        case["bad_handler"] = draw(st.sampled_from(["ret", "read_body", "read_body"]))  # who reads the body meets its defects
        case["bad_at"] = draw(st.integers(0, n))
        src = draw(st.integers(0, 2))
        if src == 0:
            case["bad"] = draw(st.sampled_from(BAD_ELEMENTS))
        elif src == 1:
            m = draw(refhttp.mutated_pipelines(max_n=1, max_body=20))
            case["bad"] = m["bytes"]
        else:
            case["bad"] = draw(st.binary(min_size=1, max_size=30))
        msgs, verdict = refhttp.strict_read(case["bad"])
        k = case["bad"].find(b"\r\n\r\n")
        head_only = case["bad"][: k + 4] if k >= 0 else case["bad"]
        hm, hv = refhttp.strict_read(head_only)
        # "reject" only when the head itself is bad: a defect in the body may be seen after a response went out
        case["bad_verdict"] = "reject" if (k >= 0 and verdict[0] == "reject" and not msgs and hv[0] == "reject") else "undecided"
        # a defect that sits in the body is seen after the head was answered: that element can get two responses
        case["bad_n"] = len(msgs) + 1 + (1 if (verdict[0] == "reject" and hv[0] != "reject") else 0)
    case["burst"] = draw(st.sampled_from([1, 1, 2, 3]))
    if any(r.get("upgrade") for r in reqs) and draw(st.booleans()):
        # a small read buffer: what is pipelined behind a (declined) upgrade request pauses reading mid-request
        case["server_kw"] = {"read_bufsize": draw(st.sampled_from([16, 64, 200]))}
        for r in reqs:
            if not r.get("upgrade"):
                r["pad"] = draw(st.sampled_from([0, 100, 300, 700]))  # a head longer than what fits before reading pauses
            if r.get("upgrade") and r["h"] in ("ret", "yield"):
                if draw(st.booleans()):
                    r["h"], r["t"] = "sleep", 0.5  # everything pipelined behind it arrives while the handler runs
                else:
                    r["h"], r["k"] = "yield", draw(st.integers(1, 8))
    if deep and draw(st.booleans()):
        # a small read buffer: bodies above twice its size pause reading on their own account, on top of the pause the
        # full request queue asks for (two reasons to keep the transport paused, two conditions to resume it)
        case["server_kw"] = {"read_bufsize": draw(st.sampled_from([16, 64, 128]))}
    if not with_bad and draw(st.integers(0, 3)) == 0:
        # no lingering: a body the handler did not read is not drained afterwards (the connection is closed instead);
        # with a small read buffer an unread body is enough to pause reading
        kw = dict(case.get("server_kw") or {})
        kw["lingering_time"] = 0
        if "read_bufsize" not in kw and draw(st.booleans()):
            kw["read_bufsize"] = draw(st.sampled_from([16, 64]))
        case["server_kw"] = kw
    if draw(st.integers(0, 3)) == 0:
        case["disconnect_at"] = draw(st.integers(1, 40))
        case["disc_kind"] = draw(st.sampled_from(["close", "reset"]))
    return case


def unit_hyp(rec: Rec, n: int, offset: int, deep: bool, with_bad: bool) -> None:
    hyp.run(rec, cases(deep, with_bad), body, n, seed_offset=offset, max_root_causes=5)


def queue_grid_cases() -> list[dict]:
    """Two reasons to pause reading at once: the parsed-request queue is full (a slow first handler, > 32 requests in one
    read) and a body behind the cap is larger than twice a small read buffer.  Every placement of that body, both framings."""
    out = []
    for rb in (16, 64):
        for total in (33, 34, 36, 40):
            for pos in sorted({total - 1, total - 2, 32, 33, 20} & set(range(1, total))):
                for bk in ("cl", "chunked"):
                    for size in (70, 300):
                        for first in ({"h": "sleep", "t": 0.5}, {"h": "yield", "k": 3}):
                            for hb in ("ret", "read_body"):
                                reqs = [dict(first, body="none", n=0)] + [{"h": "ret", "body": "none", "n": 0} for _ in range(total - 1)]
                                reqs[pos] = {"h": hb, "body": bk, "n": size}
                                out.append({"requests": reqs, "cuts": [], "burst": 1, "server_kw": {"read_bufsize": rb}})
    return out


def unit_queue_grid(rec: Rec, shard: int, nshards: int) -> None:
    rec.exhaustive = True
    for i, case in enumerate(queue_grid_cases()):
        if i % nshards != shard:
            continue
        if rec.expired():
            rec.exhaustive = False
            return
        try:
            body(rec, case)
        except Violation as v:
            if v.key in rec.muted:
                continue
            rec.fail(v.key, v.msg, case)
            rec.muted.add(v.key)


def units(tier: str, seed: int) -> list[Unit]:
    n = 400 if tier == "quick" else 6000
    us = []
    for i in range(5):
        us.append(Unit(f"mixed{i}", unit_hyp, {"n": n, "offset": i, "deep": False, "with_bad": False}))
    for i in range(6):
        us.append(Unit(f"bad{i}", unit_hyp, {"n": n, "offset": 20 + i, "deep": False, "with_bad": True}))
    for i in range(6):
        us.append(Unit(f"deep{i}", unit_hyp, {"n": max(10, n // 4), "offset": 40 + i, "deep": True, "with_bad": i == 2}))
    for sh in range(4):
        us.append(Unit(f"queue-grid{sh}", unit_queue_grid, {"shard": sh, "nshards": 4}))
    return us


def replay(rec: Rec, case: dict) -> None:
    execute(case)
