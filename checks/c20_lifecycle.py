"""C20 App lifecycle: cleanup runs exactly for what started; shutdown drains."""
from __future__ import annotations

import asyncio
import contextlib
import itertools
import warnings

from hypothesis import strategies as st

from vlib import hyp, memnet
from vlib.detloop import Quiescent, new_loop
from vlib.runner import Rec, Unit, Violation

PROPERTY = "C20"
LEVEL = "exploration"
RULE = (
    "lifecycle (fault enumeration): applications with 1..3 cleanup contexts on the root (async-generator and "
    "context-manager style) and 0..2 sub-applications (flat or nested) with their own contexts, optional on_startup / "
    "on_shutdown / on_cleanup receivers registered before or after the sub-applications; EVERY subset of up to 2 (quick) "
    "/ 3 (thorough) failing steps among {setup half of a context, teardown half of a context, a startup / shutdown / "
    "cleanup receiver}; entry points: AppRunner.setup() followed by cleanup() in a finally, and web._run_app() with the "
    "listening site replaced by a no-op and the run ended by cancelling it (what run_app does on SIGINT).  Every user "
    "callback appends to an event log.  Oracle (stack model): the teardown half of a context ran exactly once iff its "
    "setup half completed; within one application teardowns run in reverse order of the setups; a failing setup step makes "
    "the entry point raise.  shutdown (placements): a real AppRunner server with up to 4 in-memory connections in "
    "generated phases (idle fresh, idle keep-alive, half a request head, handler finishing after d in {0.3T, 0.8T, 1.5T, "
    "never}, streaming response, response write blocked by a peer that does not read) and requests that arrive after the shutdown began; runner.cleanup() is started at a "
    "generated instant under virtual time.  Oracle: idle connections are closed with no virtual time elapsing; a handler "
    "that finishes before T completes and its whole response reaches the peer; every handler has ended by 2T (+ the "
    "documented ceiling of each wait); a request that arrives after the shutdown began never reaches a handler; when "
    "cleanup() returns every transport is closed and no handler task is alive.  Non-trivial = a failing step other than "
    "the last one or a sub-application; shutdown with a running handler.  distinct = case JSON."
)
ASSUMPTIONS = [
    "AppRunner users call cleanup() in a finally even when setup() raised (as aiohttp's own run_app does)",
    "cross-application teardown order is only recorded; the reverse-order clause is checked per application",
    "POSIX signal delivery and run_app's loop management are out of reach: _run_app is driven and cancelled",
]

warnings.simplefilter("ignore")


class Boom(Exception):
    pass


# ----------------------------------------------------------------------------------------------------------------------
# lifecycle


def build_app(spec: dict, log: list, faults: set):
    from aiohttp import web

    def make_app(name: str, a: dict):
        app = web.Application()

        def make_ctx(i: int, style: str):
            cid = f"{name}.c{i}"

            async def gen(app_):
                log.append(("setup-start", cid))
                await asyncio.sleep(0)
                if ("setup", cid) in faults:
                    raise Boom(f"setup {cid}")
                log.append(("setup-done", cid))
                yield
                log.append(("teardown-start", cid))
                await asyncio.sleep(0)
                if ("teardown", cid) in faults:
                    raise Boom(f"teardown {cid}")
                log.append(("teardown-done", cid))

            if style == "gen":
                return gen
            if style == "acm":
                return contextlib.asynccontextmanager(gen)

            class CM(contextlib.AbstractAsyncContextManager):
                async def __aenter__(self):
                    log.append(("setup-start", cid))
                    if ("setup", cid) in faults:
                        raise Boom(f"setup {cid}")
                    log.append(("setup-done", cid))

                async def __aexit__(self, *a):
                    log.append(("teardown-start", cid))
                    if ("teardown", cid) in faults:
                        raise Boom(f"teardown {cid}")
                    log.append(("teardown-done", cid))

            return lambda app_: CM()

        for i in range(a["ctx"]):
            app.cleanup_ctx.append(make_ctx(i, a["styles"][i % len(a["styles"])]))

        def receivers():
            for sig in ("on_startup", "on_shutdown", "on_cleanup"):
                if a.get(sig):
                    rid = f"{name}.{sig}"

                    async def recv(app_, rid=rid, sig=sig):
                        log.append((sig, rid))
                        if (sig, rid) in faults:
                            raise Boom(rid)

                    getattr(app, sig).append(recv)

        return app, receivers

    root, root_recv = make_app("root", spec["root"])
    if not spec.get("subs_first"):
        root_recv()
    apps = {"root": root}
    prev = root
    for j, sa in enumerate(spec.get("subs", [])):
        sub, sub_recv = make_app(f"sub{j}", sa)
        sub_recv()
        apps[f"sub{j}"] = sub
        parent = prev if (spec.get("nested") and j > 0) else root
        # sub-applications must be added bottom-up for nesting: build later
        sa["_app"] = (sub, parent)
        prev = sub
    # add nested children before their parents are attached to the root
    subs = [s["_app"] for s in spec.get("subs", [])]
    for sub, parent in reversed(subs):
        if parent is not root:
            parent.add_subapp(f"/n{id(sub) % 1000}", sub)
    for sub, parent in subs:
        if parent is root:
            root.add_subapp(f"/s{id(sub) % 1000}", sub)
    for s in spec.get("subs", []):
        s.pop("_app", None)
    if spec.get("subs_first"):
        root_recv()
    return root


def all_steps(spec: dict) -> list[tuple]:
    steps = []

    def app_steps(name: str, a: dict) -> None:
        for i in range(a["ctx"]):
            steps.append(("setup", f"{name}.c{i}"))
            steps.append(("teardown", f"{name}.c{i}"))
        for sig in ("on_startup", "on_shutdown", "on_cleanup"):
            if a.get(sig):
                steps.append((sig, f"{name}.{sig}"))

    app_steps("root", spec["root"])
    for j, sa in enumerate(spec.get("subs", [])):
        app_steps(f"sub{j}", sa)
    return steps


class DummySiteFactory:
    """Stands in for TCPSite inside web._run_app: registers with the runner, binds nothing."""

    @staticmethod
    def make():
        from aiohttp import web_runner

        class DummySite(web_runner.BaseSite):
            def __init__(self, runner, *a, **kw):
                super().__init__(runner)

            @property
            def name(self):
                return "http://dummy"

            async def start(self):
                await super().start()

        return DummySite


def run_lifecycle(case: dict) -> tuple[list, dict]:
    from aiohttp import web

    log: list = []
    faults = {tuple(f) for f in case["faults"]}
    res: dict = {}
    loop = new_loop()
    try:
        asyncio.set_event_loop(loop)
        spec = {k: (dict(v) if isinstance(v, dict) else ([dict(x) for x in v] if isinstance(v, list) else v)) for k, v in case["spec"].items()}
        app = build_app(spec, log, faults)
        if case["entry"] == "runner":
            async def go():
                runner = web.AppRunner(app)
                try:
                    await runner.setup()
                    res["setup"] = None
                except Exception as e:  # noqa: BLE001
                    res["setup"] = e
                finally:
                    try:
                        await runner.cleanup()
                        res["cleanup"] = None
                    except Exception as e:  # noqa: BLE001
                        res["cleanup"] = e

            loop.drive(go(), max_time=1000)
        else:
            import aiohttp.web as webmod

            orig = webmod.TCPSite
            webmod.TCPSite = DummySiteFactory.make()
            try:
                task = loop.create_task(webmod._run_app(app, print=None, shutdown_timeout=1.0))
                loop.run_until_idle()
                if not task.done():
                    task.cancel()  # what run_app does with the main task after GracefulExit / KeyboardInterrupt
                ok = loop.run_to_quiescence(max_time=500)
                if not task.done():
                    raise Violation("run-app-hangs", f"_run_app does not finish after cancellation; log={log}; case={case}")
                try:
                    task.result()
                    res["run"] = None
                except asyncio.CancelledError:
                    res["run"] = "cancelled"
                except Exception as e:  # noqa: BLE001
                    res["run"] = e
            finally:
                webmod.TCPSite = orig
        return log, res
    except Quiescent:
        raise Violation("lifecycle-hangs", f"setup/cleanup never finishes; log={log}; case={case}")
    finally:
        asyncio.set_event_loop(None)
        loop.shutdown()


def check_lifecycle(rec: Rec, case: dict) -> None:
    log, res = run_lifecycle(case)
    faults = {tuple(f) for f in case["faults"]}
    done = [c for k, c in log if k == "setup-done"]
    started = [c for k, c in log if k == "setup-start"]
    tears = [c for k, c in log if k == "teardown-start"]
    desc = f"log={log}; result={ {k: (type(v).__name__ if isinstance(v, BaseException) else v) for k, v in res.items()} }; case={case}"
    for c in set(started) | set(tears):
        n = tears.count(c)
        if c in done and n == 0:
            raise Violation(f"teardown-missing/{case['entry']}/{classify(case, c, log)}", f"context {c}: setup completed but its teardown never ran; {desc}")
        if c in done and n > 1:
            raise Violation("teardown-twice", f"context {c}: teardown ran {n} times; {desc}")
        if c not in done and n:
            raise Violation("teardown-without-setup", f"context {c}: teardown ran although its setup did not complete; {desc}")
    # reverse order per application
    for appname in {c.split(".")[0] for c in done}:
        d = [c for c in done if c.startswith(appname + ".")]
        t = [c for c in tears if c.startswith(appname + ".")]
        if t != list(reversed(d))[:len(t)] and sorted(t) == sorted(d):
            raise Violation("teardown-order", f"application {appname}: setups completed in order {d}, teardowns ran in order {t}; {desc}")
    # a failing setup step surfaces
    setup_fault_hit = any(k == "setup-start" and ("setup", c) in faults for k, c in log) or any(k == "on_startup" and (k, c) in faults for k, c in log)
    if setup_fault_hit:
        err = res.get("setup") if case["entry"] == "runner" else res.get("run")
        if not isinstance(err, BaseException):
            raise Violation("startup-error-swallowed", f"a startup step raised but the entry point reported {err!r}; {desc}")
    steps = all_steps(case["spec"])
    nt = bool(case["spec"].get("subs")) or any(tuple(f) != steps[-1] for f in case["faults"])
    labels = [case["entry"], f"faults:{len(faults)}", "subs" if case["spec"].get("subs") else "flat"]
    if len({c.split('.')[0] for c in tears}) > 1:
        labels.append("cross-app-teardown")
    rec.case(case, nt and bool(faults), labels)


def classify(case: dict, ctx: str, log: list) -> str:
    """Name the situation (so that distinct root causes get distinct keys)."""
    faults = {tuple(f) for f in case["faults"]}
    kinds = sorted({f[0] for f in faults if any(k == ("setup-start" if f[0] == "setup" else "teardown-start" if f[0] == "teardown" else f[0]) and c == f[1] for k, c in log)})
    where = "sub" if ctx.startswith("sub") else "root"
    return where + "-ctx-after-" + "+".join(kinds or ["nothing"])


def lifecycle_specs(tier: str) -> list[dict]:
    A = lambda n, **kw: dict({"ctx": n, "styles": ["gen", "cm", "acm"]}, **kw)  # noqa: E731
    specs = [
        {"root": A(3)},
        {"root": A(2, on_startup=1, on_shutdown=1, on_cleanup=1)},
        {"root": A(2, on_startup=1), "subs": [A(2)]},
        {"root": A(1, on_cleanup=1, on_shutdown=1), "subs": [A(1, on_startup=1)], "subs_first": True},
        {"root": A(1), "subs": [A(1), A(1)]},
        {"root": A(1), "subs": [A(1), A(1)], "nested": True},
    ]
    if tier == "thorough":
        specs += [
            {"root": A(4)},
            {"root": A(2, on_startup=1, on_cleanup=1), "subs": [A(2, on_cleanup=1), A(1, on_shutdown=1)], "nested": True},
            {"root": A(2, on_startup=1, on_cleanup=1), "subs": [A(2, on_cleanup=1), A(1, on_shutdown=1)], "subs_first": True},
        ]
    return specs


def unit_lifecycle(rec: Rec, spec: dict, entry: str, maxfaults: int) -> None:
    rec.exhaustive = True
    steps = all_steps(spec)
    for k in range(0, maxfaults + 1):
        for faults in itertools.combinations(steps, k):
            if rec.expired():
                rec.exhaustive = False
                return
            case = {"spec": spec, "faults": [list(f) for f in faults], "entry": entry}
            try:
                check_lifecycle(rec, case)
            except Violation as v:
                if rec.is_known(v.key):
                    rec.known_hits[v.key] += 1
                    continue
                if v.key in rec.muted:
                    continue
                rec.fail(v.key, v.msg, case)
                rec.muted.add(v.key)


# ----------------------------------------------------------------------------------------------------------------------
# shutdown


def run_shutdown(case: dict) -> dict:
    from aiohttp import web

    T = case["T"]
    loop = new_loop()
    ev: list = []
    out: dict = {"ev": ev}
    try:
        asyncio.set_event_loop(loop)
        handler_tasks: list = []

        async def handler(request):
            name = request.path
            handler_tasks.append(asyncio.current_task())
            ev.append((loop.time(), "handler-start", name))
            try:
                if name.startswith("/sleep/"):
                    d = float(name.split("/")[2])
                    await asyncio.sleep(d)
                    ev.append((loop.time(), "handler-finish", name))
                    return web.Response(text="slept-" + name)
                if name.startswith("/never"):
                    await loop.create_future()
                if name.startswith("/uploadslow/"):
                    # starts reading only after the shutdown has begun; its whole body arrived long before and waits,
                    # partly parsed, behind the reader's flow control
                    await asyncio.sleep(float(name.split("/")[2]))
                    data = await request.read()
                    ev.append((loop.time(), "handler-finish", name))
                    return web.Response(text=f"uploaded-{len(data)};")
                if name.startswith("/upload"):
                    data = await request.read()
                    ev.append((loop.time(), "handler-finish", name))
                    return web.Response(text=f"uploaded-{len(data)};")
                if name.startswith("/bigwrite"):
                    # the peer does not read: the response write blocks in drain()
                    resp = web.StreamResponse()
                    await resp.prepare(request)
                    for _ in range(8):
                        await resp.write(b"w" * 100_000)
                    await resp.write_eof()
                    ev.append((loop.time(), "handler-finish", name))
                    return resp
                if name.startswith("/stream/"):
                    d = float(name.split("/")[2])
                    resp = web.StreamResponse()
                    await resp.prepare(request)
                    for i in range(4):
                        await resp.write(b"chunk%d;" % i)
                        await asyncio.sleep(d / 4)
                    await resp.write_eof()
                    ev.append((loop.time(), "handler-finish", name))
                    return resp
                ev.append((loop.time(), "handler-finish", name))
                return web.Response(text="quick-" + name)
            except asyncio.CancelledError:
                ev.append((loop.time(), "handler-cancelled", name))
                raise

        async def go():
            app = web.Application()
            app.router.add_route("*", "/{tail:.*}", handler)
            if case.get("hook_raises"):
                async def bad_hook(app_):
                    raise Boom("on_shutdown")

                app.on_shutdown.append(bad_hook)
            if case.get("hook_sleep") is not None:
                async def slow_hook(app_):
                    # e.g. telling websocket clients to go away: takes a while, and the loop runs meanwhile
                    ev.append((loop.time(), "hook-start", "on_shutdown"))
                    for _ in range(12):
                        await asyncio.sleep(0)
                    if case["hook_sleep"]:
                        await asyncio.sleep(case["hook_sleep"])
                    ev.append((loop.time(), "hook-end", "on_shutdown"))

                app.on_shutdown.insert(0, slow_hook)
            runner = web.AppRunner(app, shutdown_timeout=T, access_log=None)
            await runner.setup()
            server = runner.server
            conns = []
            for i, ph in enumerate(case["conns"]):
                peer = memnet.ScriptPeer()
                proto = server()
                pt, st_ = memnet.connect_protocols(loop, [], peer, proto, name=f"c{i}")
                conns.append((peer, pt, st_, ph))
                kind = ph["kind"]
                if kind == "fresh":
                    pass
                elif kind == "keepalive":
                    peer.send(f"GET /quick/{i} HTTP/1.1\r\nHost: h\r\n\r\n".encode())
                elif kind == "half":
                    peer.send(f"GET /quick/{i} HTTP/1.1\r\nHo".encode())
                elif kind == "sleep":
                    peer.send(f"GET /sleep/{ph['d'] * T + ph['pre'] }/{i} HTTP/1.1\r\nHost: h\r\n\r\n".encode())
                elif kind == "never":
                    peer.send(f"GET /never/{i} HTTP/1.1\r\nHost: h\r\n\r\n".encode())
                elif kind == "bigwrite":
                    pt.pause_reading()
                    peer.send(f"GET /bigwrite/{i} HTTP/1.1\r\nHost: h\r\n\r\n".encode())
                elif kind == "stream":
                    peer.send(f"GET /stream/{ph['d'] * T + ph['pre']}/{i} HTTP/1.1\r\nHost: h\r\n\r\n".encode())
                elif kind == "upload_big":
                    # a large chunked upload: what is still to come exceeds the reader's high-water mark in one piece, so the
                    # parser is paused in the middle of it and resumed by the handler's reads - during the shutdown
                    peer.send(f"POST /upload/{i} HTTP/1.1\r\nHost: h\r\nTransfer-Encoding: chunked\r\n\r\n".encode() + b"186a0\r\n" + b"u" * 100_000 + b"\r\n")
                elif kind == "upload_stashed":
                    peer.send(f"POST /uploadslow/{case['pre'] + 0.05}/{i} HTTP/1.1\r\nHost: h\r\nTransfer-Encoding: chunked\r\n\r\n".encode()
                              + b"".join(b"186a0\r\n" + b"w" * 100_000 + b"\r\n" for _ in range(9)) + b"0\r\n\r\n")
                elif kind == "upload":
                    # a request whose body is still on its way when the shutdown begins; the rest follows right after
                    peer.send(f"POST /upload/{i} HTTP/1.1\r\nHost: h\r\nContent-Length: 1000\r\n\r\n".encode() + b"u" * 400)
            # clients that go away while their request is being handled (handlers are not cancelled on disconnect by
            # default): the handler is still "a request being handled" when the shutdown comes
            if any(ph.get("gone") for ph in case["conns"]):
                for _ in range(5):
                    await asyncio.sleep(0)
                for peer, pt, st_, ph in conns:
                    if ph.get("gone"):
                        pt.close()
                for _ in range(5):
                    await asyncio.sleep(0)
            # let the requests start, then advance to the shutdown instant
            await asyncio.sleep(case["pre"])
            t0 = loop.time()
            out["t0"] = t0
            out["closed_at_t0_before"] = [st_.closing for _, _, st_, _ in conns]
            cleanup = asyncio.ensure_future(runner.cleanup())
            for _ in range(case["late_after_iters"]):
                await asyncio.sleep(0)
            out["t_after_iters"] = loop.time()
            # requests arriving after the shutdown began
            for i, (peer, pt, st_, ph) in enumerate(conns):
                if ph["kind"] == "upload_big" and not pt.closing:
                    rest = b"".join(b"186a0\r\n" + b"v" * 100_000 + b"\r\n" for _ in range(8)) + b"0\r\n\r\n"
                    peer.send(rest)
                    ev.append((loop.time(), "upload-rest-sent", i))
                elif ph["kind"] == "upload" and not pt.closing:
                    def send_rest(peer=peer, pt=pt, ph=ph, i=i):
                        if pt.closing:
                            return
                        peer.send(b"u" * 600 + (f"GET /late/{i} HTTP/1.1\r\nHost: h\r\n\r\n".encode() if ph.get("late") else b""))
                        ev.append((loop.time(), "upload-rest-sent", i))

                    if ph.get("rest_at"):
                        # the rest of the body is on its way and arrives within the allowance, maybe in its last fraction
                        loop.call_at(t0 + ph["rest_at"] * T, send_rest)
                    else:
                        send_rest()
                elif ph.get("late") and not pt.closing:
                    rest = b"st: h\r\n\r\n" if ph["kind"] == "half" else f"GET /late/{i} HTTP/1.1\r\nHost: h\r\n\r\n".encode()
                    peer.send(rest)
                    ev.append((loop.time(), "late-sent", i))
            # snapshot right after the loop went idle at t0 (no time elapsed)
            for _ in range(20):
                await asyncio.sleep(0)
            out["snap_time"] = loop.time()
            out["snap_closed"] = [st_.closing or st_.closed for _, _, st_, _ in conns]
            try:
                await cleanup
                out["cleanup_exc"] = None
            except Exception as e:  # noqa: BLE001
                out["cleanup_exc"] = e
            out["t_end"] = loop.time()
            out["final_closed"] = [st_.closing or st_.closed for _, _, st_, _ in conns]
            out["received"] = [bytes(peer.received) for peer, _, _, _ in conns]
            out["handler_alive"] = [not t.done() for t in handler_tasks]

        loop.drive(go(), max_time=100 * T + 1000)
        out["exc_contexts"] = list(loop.exc_contexts)
        return out
    except Quiescent:
        raise Violation("shutdown-hangs", f"runner.cleanup() never returns; events={ev}; case={case}")
    finally:
        asyncio.set_event_loop(None)
        loop.shutdown()


def ceil_bound(T: float) -> float:
    """ceil_timeout rounds delays above 5 s up to a whole second of loop time."""
    return T + 1.0 if T > 5 else T


def check_shutdown(rec: Rec, case: dict) -> None:
    out = run_shutdown(case)
    T = case["T"]
    t0 = out["t0"]
    hook = case.get("hook_sleep") or 0.0  # the waiting for handlers starts when the on_shutdown hooks are through
    ev = out["ev"]
    desc = f"events={ev}; t0={t0} end={out['t_end']}; case={case}"
    running = False
    for i, ph in enumerate(case["conns"]):
        kind = ph["kind"]
        name_suffix = f"/{i}"
        hs = [e for e in ev if e[2] != i and isinstance(e[2], str) and e[2].endswith(name_suffix) and not e[2].startswith("/late")]
        started = any(e[1] == "handler-start" for e in hs)
        finished = [e for e in hs if e[1] == "handler-finish"]
        cancelled = [e for e in hs if e[1] == "handler-cancelled"]
        active_at_t0 = started and not any(e[0] <= t0 for e in finished + cancelled) if kind in ("sleep", "never", "stream", "bigwrite", "upload", "upload_big", "upload_stashed") else False
        if kind in ("upload", "upload_big", "upload_stashed") and active_at_t0:
            # its body arrives in full right after the shutdown began: "may complete during the shutdown timeout"
            if cancelled or not finished:
                raise Violation("upload-in-progress-cannot-complete", f"the handler of connection {i} was reading a request body when the shutdown began; the rest of the body "
                                f"arrived within the shutdown timeout, yet the handler was cancelled / never finished; {desc}")
            if (b"uploaded-1000;" if kind == "upload" else b"uploaded-900000;") not in out["received"][i]:
                raise Violation("response-lost-in-shutdown", f"upload handler of connection {i} finished but its response did not reach the peer: {out['received'][i][-120:]!r}; {desc}")
        if kind in ("fresh", "keepalive") or (kind in ("sleep", "stream") and not active_at_t0 and started):
            # idle at the shutdown instant: closed at once
            if out["snap_time"] != t0:
                raise AssertionError("harness: time moved before the snapshot")
            if not out["snap_closed"][i]:
                raise Violation("idle-connection-not-closed-at-once", f"connection {i} ({kind}) was idle when the shutdown began but is still open with no time elapsed; {desc}")
        if active_at_t0:
            running = True
            remaining = (ph["d"] * T + ph["pre"]) - case["pre"] if kind in ("sleep", "stream") else None
            if remaining is not None and remaining < T - 1e-9:
                if cancelled or not finished:
                    raise Violation("handler-cancelled-before-timeout", f"handler of connection {i} needed {remaining:.3f}s < shutdown_timeout {T} but was cancelled / did not finish; {desc}")
                body = out["received"][i]
                want = b"slept-" if kind == "sleep" else b"chunk3;"
                if want not in body and not ph.get("gone"):
                    raise Violation("response-lost-in-shutdown", f"handler of connection {i} finished in time but its response did not reach the peer: {body[-120:]!r}; {desc}")
            ends = [e[0] for e in finished + cancelled]
            if not ends:
                raise Violation("handler-never-ended", f"handler of connection {i} neither finished nor was cancelled; {desc}")
            limit = t0 + hook + 2 * ceil_bound(T) + 1e-6
            if min(ends) > limit:
                raise Violation("handler-outlives-2T", f"handler of connection {i} ended at {min(ends)}, later than shutdown start {t0} + 2*{ceil_bound(T)}; {desc}")
    late = [e for e in ev if e[1] == "handler-start" and e[2].startswith("/late")]
    early_race = case["late_after_iters"] < 3  # the request arrives while cleanup() is still stopping the sites: it may or may not be taken on
    if late and not early_race:
        raise Violation("late-request-handled", f"a request that arrived after the shutdown began reached a handler: {late}; {desc}")
    for e in late:
        # ... but a request that IS taken on is answered: its connection is not closed under it
        i = int(e[2].rsplit("/", 1)[1])
        if f"quick-{e[2]}".encode() not in out["received"][i]:
            raise Violation("request-accepted-then-dropped", f"the handler ran for {e[2]} (arrived as the shutdown began) but no response reached the peer: "
                            f"{out['received'][i][-100:]!r}; {desc}")
    for i, ph in enumerate(case["conns"]):
        if ph["kind"] == "half" and ph.get("late"):
            hs = [e for e in ev if e[1] == "handler-start" and e[2] == f"/quick/{i}" and e[0] >= t0]
            if hs and not early_race:
                raise Violation("late-request-handled", f"a request completed after the shutdown began reached a handler: {hs}; {desc}")
            if hs and f"quick-/quick/{i}".encode() not in out["received"][i]:
                raise Violation("request-accepted-then-dropped", f"the handler ran for /quick/{i} (completed as the shutdown began) but no response reached the peer; {desc}")
    if not all(out["final_closed"]):
        raise Violation("connection-open-after-cleanup", f"connections {[i for i, c in enumerate(out['final_closed']) if not c]} are still open after cleanup() returned; {desc}")
    if any(out["handler_alive"]):
        raise Violation("handler-alive-after-cleanup", f"a handler task is still alive after cleanup() returned; {desc}")
    if out["t_end"] > t0 + hook + 2 * ceil_bound(T) + 1e-6:
        raise Violation("cleanup-exceeds-2T", f"cleanup() took {out['t_end'] - t0:.3f}s, more than twice the shutdown timeout {T}; {desc}")
    if isinstance(out["cleanup_exc"], BaseException) and not (case.get("hook_raises") and isinstance(out["cleanup_exc"], Boom)):
        raise Violation(hyp.exc_key(out["cleanup_exc"], "cleanup-raised"), f"runner.cleanup() raised {out['cleanup_exc']!r}; {desc}")
    labels = sorted({ph["kind"] for ph in case["conns"]}) + (["slow-hook"] if case.get("hook_sleep") is not None else []) + (
        ["client-gone"] if any(ph.get("gone") for ph in case["conns"]) else [])
    rec.case(case, running, labels)


@st.composite
def shutdown_cases(draw):
    T = draw(st.sampled_from([1.0, 2.0, 8.0, 0.0]))  # 0: no allowance at all, handlers are cancelled at once
    n = draw(st.integers(1, 4))
    conns = []
    for _ in range(n):
        kind = draw(st.sampled_from(["fresh", "keepalive", "half", "sleep", "sleep", "never", "stream", "bigwrite", "upload", "upload_big", "upload_stashed"]))
        ph = {"kind": kind, "late": draw(st.booleans())}
        if kind in ("sleep", "stream"):
            ph["d"] = draw(st.sampled_from([0.3, 0.8, 1.5, 0.0, 0.995, 1.005]))  # 0.995, 1.005: done in the last fraction of the allowance (the shutdown begins at 0, 0.1 or 0.5)
            ph["pre"] = 0.0
        if kind == "upload":
            ph["rest_at"] = draw(st.sampled_from([0.0, 0.0, 0.5, 0.995]))
        if kind in ("sleep", "never") and draw(st.integers(0, 3)) == 0:
            ph["gone"] = True
            ph["late"] = False
        conns.append(ph)
    pre = draw(st.sampled_from([0.0, 0.1, 0.5]))
    for ph in conns:
        if "d" in ph:
            ph["pre"] = pre if ph["d"] > 0 else 0.0  # d counts from the shutdown instant; d == 0: done before it
            if ph["d"] == 0.0:
                ph["d"] = 0.0
    return {"T": T, "conns": conns, "pre": pre, "hook_raises": draw(st.integers(0, 4)) == 0, "late_after_iters": draw(st.sampled_from([0, 1, 2, 3, 3, 4, 5, 8])),
            "hook_sleep": draw(st.sampled_from([None, None, 0.0, 0.0, 0.25, 1.0]))}  # cleanup() yields once before it stops accepting


def unit_shutdown(rec: Rec, n: int, offset: int) -> None:
    hyp.run(rec, shutdown_cases(), check_shutdown, n, seed_offset=offset, max_root_causes=6)


# ----------------------------------------------------------------------------------------------------------------------

def units(tier: str, seed: int) -> list[Unit]:
    us = []
    mf = 2 if tier == "quick" else 3
    for si, spec in enumerate(lifecycle_specs(tier)):
        for entry in ("runner", "run_app"):
            us.append(Unit(f"life-{si}-{entry}", unit_lifecycle, {"spec": spec, "entry": entry, "maxfaults": mf}))
    n = 900 if tier == "quick" else 30000
    for i in range(6 if tier == "quick" else 12):
        us.append(Unit(f"shutdown{i}", unit_shutdown, {"n": n, "offset": i}))
    return us


def replay(rec: Rec, case: dict) -> None:
    if "spec" in case:
        check_lifecycle(rec, case)
    else:
        check_shutdown(rec, case)
