"""C04 Outbound messages: field contents cannot inject structure; framing is truthful."""
from __future__ import annotations

import asyncio
import gzip
import io
import os
import logging
import zlib

from hypothesis import strategies as st

from vlib import hyp, memnet, refhttp
from vlib.detloop import Quiescent, new_loop
from vlib.runner import Rec, Unit, Violation

PROPERTY = "C04"
LEVEL = "exploration"
RULE = (
    "inject: every Unicode code point (exhaustive in thorough; all < 0x3000 plus a stride above in quick) placed at the "
    "start / middle / end of an otherwise valid string in each position - start line, header name, header value of the "
    "shared header serialiser; web.Response reason; client method, URL path and query, extra header name/value, cookie "
    "name/value; server response header/cookie; multipart part header name/value; FormData field name, filename, "
    "content type - plus random strings; the message is sent through the real writer onto a capturing transport.  "
    "Oracle: either an exception and zero bytes written, or the captured head splits on CRLF into exactly 1 + number of "
    "supplied fields lines, each the supplied text, with no bare CR/LF.  frame: generated sequences of write_headers / "
    "write(chunk) / send_headers / write_eof / set_eof with chunk sizes around 0, 2047/2048, 64 KiB x {chunked, declared "
    "length, neither} x {identity, deflate, gzip}, and Response/StreamResponse/payload/multipart/FormData bodies.  "
    "Oracle: independent de-chunk + inflate equals the concatenation of written data, exactly one terminator, declared "
    "length == emitted bytes, Payload.size == bytes written.  Non-trivial = control / separator / surrogate code point or "
    "refused string (inject); >= 2 writes with an empty or threshold-sized chunk (frame)."
)
ASSUMPTIONS = [
    "the pure-Python header serialiser is the one under test (AIOHTTP_NO_EXTENSIONS=1)",
    "a declared length smaller than the data written truncates (documented); under-running an application-declared length is the application's fault and not checked",
]

for _n in ("aiohttp.server", "aiohttp.access", "aiohttp.web", "aiohttp.client", "aiohttp.internal"):
    logging.getLogger(_n).disabled = True


def interesting(cp: int) -> bool:
    return cp < 0x21 or 0x7F <= cp <= 0xA0 or cp in (0x2028, 0x2029, 0x85, 0x1680, 0x180E, 0x200B, 0xFEFF, 0x3000) or 0xD800 <= cp <= 0xDFFF or cp > 0x10FFF0


def code_points(tier: str, shard: int, nshards: int):
    if tier == "quick":
        cps = list(range(0, 0x3000)) + list(range(0x3000, 0x110000, 97)) + list(range(0xD7F0, 0xE010))
    else:
        cps = list(range(0, 0x110000))
    return cps[shard::nshards]


def split_head(data: bytes):
    """Independent head splitter: (lines, rest) or None if there is no blank line."""
    i = data.find(b"\r\n\r\n")
    if i < 0:
        return None
    return data[:i].split(b"\r\n"), data[i + 4:]


def check_head(data: bytes, start_line: str | None, fields: list[tuple[str, str]], what: str, strict_fields: bool = True) -> None:
    sp = split_head(data)
    if sp is None:
        raise Violation(f"no-head/{what}", f"bytes were written but there is no CRLFCRLF: {data[:80]!r}")
    lines, _rest = sp
    for ln in lines:
        if b"\r" in ln or b"\n" in ln:
            raise Violation(f"bare-cr-lf/{what}", f"line contains a bare CR/LF: {ln[:80]!r}")
    if start_line is not None and lines[0] != start_line.encode("utf-8"):
        raise Violation(f"start-line-altered/{what}", f"start line {lines[0][:80]!r} != supplied {start_line[:80]!r}")
    if strict_fields:
        if len(lines) != 1 + len(fields):
            raise Violation(f"line-count/{what}", f"{len(lines) - 1} field lines for {len(fields)} supplied fields: {lines[:6]}")
        for ln, (k, v) in zip(lines[1:], fields):
            if ln != (k + ": " + v).encode("utf-8"):
                raise Violation(f"field-altered/{what}", f"field line {ln[:80]!r} != supplied {(k + ': ' + v)[:80]!r}")


# ------------------------------------------------------------------ A: the shared serialiser, exhaustive
def unit_serialise(rec: Rec, shard: int, nshards: int) -> None:
    from multidict import CIMultiDict

    from aiohttp.http_writer import _py_serialize_headers

    bases = {"start": "HTTP/1.1 200 OK", "name": "X-Name", "value": "some value"}
    for cp in code_points(rec.tier, shard, nshards):
        ch = chr(cp)
        nt = interesting(cp)
        for pos, base in bases.items():
            for place in (0, len(base) // 2, len(base)):
                s = base[:place] + ch + base[place:]
                start = s if pos == "start" else "HTTP/1.1 200 OK"
                name = s if pos == "name" else "X-Name"
                value = s if pos == "value" else "v"
                fields = [("Host", "a"), (name, value), ("Z", "z")]
                try:
                    out = _py_serialize_headers(start, CIMultiDict(fields))
                except (ValueError, UnicodeError):
                    rec.case((cp, pos, place), nt, ["refused"] if place == 0 else [])
                    continue
                case = {"unit": "serialise", "cp": cp, "pos": pos, "place": place}
                rec.case((cp, pos, place), nt, ["accepted"] if place == 0 else [])
                try:
                    check_head(out, start, fields, f"serialise-{pos}")
                except Violation as v:
                    rec.fail(v.key, f"U+{cp:04X} in {pos} at {place}: {v.msg}", case)
    if shard == 0:
        # all short combinations of the structural characters (a fold is CRLF + SP/HTAB, a split is CRLF + text ...)
        import itertools as _it

        alpha = ["\r", "\n", " ", "\t", "a", ":", "\x00", "\x0b"]
        for n in (2, 3, 4):
            for combo in _it.product(alpha, repeat=n):
                ins = "".join(combo)
                if "\r" not in ins and "\n" not in ins and "\x00" not in ins and "\x0b" not in ins:
                    continue
                for pos, base in bases.items():
                    for place in (0, len(base) // 2, len(base)):
                        s2 = base[:place] + ins + base[place:]
                        start = s2 if pos == "start" else "HTTP/1.1 200 OK"
                        fields = [("Host", "a"), (s2 if pos == "name" else "X-Name", s2 if pos == "value" else "v"), ("Z", "z")]
                        rec.case(("combo", ins, pos, place), True, ["combo"])
                        try:
                            out = _py_serialize_headers(start, CIMultiDict(fields))
                        except (ValueError, UnicodeError):
                            continue
                        try:
                            check_head(out, start, fields, f"serialise-{pos}")
                        except Violation as v:
                            rec.fail(v.key, f"{ins!r} in {pos} at {place}: {v.msg}", {"unit": "serialise_combo", "ins": ins, "pos": pos, "place": place})
    rec.exhaustive = rec.tier != "quick"


# ------------------------------------------------------------------ B: StreamWriter write sequences
class CapProto:
    """BaseProtocol look-alike around a capturing transport."""

    def __init__(self, loop) -> None:
        from aiohttp.base_protocol import BaseProtocol

        self.p = BaseProtocol(loop)
        self.chunks: list[bytes] = []
        outer = self

        class T(asyncio.Transport):
            def write(self, data):
                outer.chunks.append(bytes(data))

            def writelines(self, lst):
                for d in lst:
                    outer.chunks.append(bytes(d))

            def is_closing(self):
                return False

            def get_extra_info(self, *a, **k):
                return None

        self.p.transport = T()


def dechunk(data: bytes):
    out = bytearray()
    pos = 0
    terms = 0
    while True:
        j = data.find(b"\r\n", pos)
        if j < 0:
            return bytes(out), terms, data[pos:], "incomplete chunk-size line"
        try:
            size = int(data[pos:j].split(b";")[0], 16)
        except ValueError:
            return bytes(out), terms, data[pos:], f"bad chunk-size line {data[pos:j][:30]!r}"
        pos = j + 2
        if size == 0:
            if data[pos:pos + 2] != b"\r\n":
                return bytes(out), terms, data[pos:], "terminator not followed by CRLF"
            terms += 1
            pos += 2
            return bytes(out), terms, data[pos:], None
        out += data[pos:pos + size]
        if data[pos + size:pos + size + 2] != b"\r\n":
            return bytes(out), terms, data[pos:], "chunk data not followed by CRLF"
        pos += size + 2


def run_writer_sequence(case: dict) -> dict:
    from multidict import CIMultiDict

    from aiohttp.http_writer import StreamWriter

    loop = new_loop()
    try:
        cp = CapProto(loop)
        w = StreamWriter(cp.p, loop)
        mode = case["mode"]
        written = bytearray()
        hdrs = CIMultiDict({"Host": "a"})
        if mode == "chunked":
            w.enable_chunking()
            hdrs["Transfer-Encoding"] = "chunked"
        elif mode == "length":
            w.length = case["length"]
            hdrs["Content-Length"] = str(case["length"])
        if case.get("compress"):
            w.enable_compression(case["compress"])

        def as_buffer(data: bytes):
            """The same bytes in one of the buffer types the writer documents / asserts as accepted."""
            bt = case.get("buftype", "bytes")
            if bt == "bytearray":
                return bytearray(data)
            if bt == "memoryview":
                return memoryview(data)
            if bt == "memoryview16" and len(data) % 2 == 0 and data:
                import array

                a = array.array("H")
                a.frombytes(data)
                return memoryview(a)  # 2-byte items: len() is half the byte count
            return data

        async def go():
            await w.write_headers("HTTP/1.1 200 OK", hdrs)
            ended = False
            for op in case["ops"]:
                if ended and op[0] in ("write", "eof") and op[1]:
                    continue  # writing after the end is outside the documented contract
                if op[0] in ("eof", "set_eof"):
                    ended_now = True
                else:
                    ended_now = False
                if op[0] == "write":
                    data = bytes((i * 7 + op[2]) & 0xFF for i in range(op[1])) if op[1] < 5000 else (bytes(range(256)) * (op[1] // 256 + 1))[:op[1]]
                    written.extend(data)
                    await w.write(as_buffer(data))
                elif op[0] == "send_headers":
                    w.send_headers()
                elif op[0] == "eof" and case.get("eof_interrupted") and not ended:
                    # the transport's buffer is full when the message ends: write_eof() waits in drain(); the caller gives up
                    # (a timeout around write_eof()), the buffer drains, and whoever finishes the response calls write_eof() again
                    data = bytes((i * 3 + 1) & 0xFF for i in range(op[1]))
                    written.extend(data)
                    cp.p.pause_writing()
                    t = asyncio.ensure_future(w.write_eof(as_buffer(data)))
                    for _ in range(case["eof_interrupted"]):
                        await asyncio.sleep(0)
                    t.cancel()
                    try:
                        await t
                    except asyncio.CancelledError:
                        pass
                    cp.p.resume_writing()
                    await w.write_eof()
                elif op[0] == "eof":
                    data = bytes((i * 3 + 1) & 0xFF for i in range(op[1]))
                    written.extend(data)
                    await w.write_eof(as_buffer(data))
                elif op[0] == "set_eof":
                    w.set_eof()
                ended = ended or ended_now

        loop.drive(go())
        data = b"".join(cp.chunks)
        sp = split_head(data)
        if sp is None:
            raise Violation("frame/no-head", f"no complete head in {data[:60]!r}")
        lines, bodyb = sp
        first_end = next((op for op in case["ops"] if op[0] in ("eof", "set_eof")), ("set_eof",))
        ended_with_write_eof = first_end[0] == "eof"
        expect = bytes(written)
        if mode == "chunked":
            dec, terms, rest, err = dechunk(bodyb)
            if err:
                raise Violation("frame/chunked-malformed", f"{err}; ops={case['ops'][:8]}")
            if terms != 1 or rest:
                raise Violation("frame/terminator", f"{terms} terminators, {len(rest)} bytes after the terminator; ops={case['ops'][:8]}")
            raw = dec
        else:
            raw = bodyb
        if case.get("compress"):
            if not ended_with_write_eof:
                return {"skipped": "compressed stream not finished (set_eof does not flush)"}
            try:
                raw = zlib.decompress(raw, 16 + zlib.MAX_WBITS) if case["compress"] == "gzip" else zlib.decompress(raw)
            except zlib.error as e:
                if mode == "length":
                    return {"skipped": "declared length cut the compressed stream"}
                raise Violation("frame/compressed-malformed", f"body does not inflate: {e}; ops={case['ops'][:8]}")
        if mode == "length" and not case.get("compress"):
            n = case["length"]
            if len(expect) >= n:
                if raw != expect[:n]:
                    raise Violation("frame/length", f"declared {n}, wrote {len(expect)} bytes, emitted {len(raw)} body bytes (must be exactly the first {n}); ops={case['ops'][:8]}")
            elif raw != expect:
                raise Violation("frame/body", f"emitted {len(raw)} bytes for {len(expect)} written; ops={case['ops'][:8]}")
        elif raw != expect:
            raise Violation("frame/body", f"decoded body has {len(raw)} bytes, {len(expect)} were written (first diff {_fd(raw, expect)}); mode={mode} compress={case.get('compress')} ops={case['ops'][:8]}")
        return {}
    finally:
        loop.shutdown()


def _fd(a: bytes, b: bytes) -> int:
    for i, (x, y) in enumerate(zip(a, b)):
        if x != y:
            return i
    return min(len(a), len(b))


@st.composite
def writer_cases(draw):
    size = st.sampled_from([0, 0, 1, 5, 2047, 2048, 2049, 65535, 65536, 65537, 300])
    op = st.one_of(st.tuples(st.just("write"), size, st.integers(0, 9)), st.tuples(st.just("write"), size, st.integers(0, 9)), st.just(("send_headers",)))
    ops = draw(st.lists(op, max_size=6))
    end = draw(st.sampled_from(["eof", "eof", "set_eof"]))
    ops.append(("eof", draw(st.sampled_from([0, 0, 3, 6, 2048, 70000]))) if end == "eof" else ("set_eof",))
    if draw(st.booleans()):
        ops.append(draw(st.sampled_from([("eof", 0), ("set_eof",)])))  # idempotent second end
    mode = draw(st.sampled_from(["chunked", "length", "none"]))
    case = {"ops": [list(o) for o in ops], "mode": mode, "compress": draw(st.sampled_from([None, None, "deflate", "gzip"])),
            "buftype": draw(st.sampled_from(["bytes", "bytes", "bytearray", "memoryview", "memoryview16"]))}
    if end == "eof" and draw(st.integers(0, 3)) == 0:
        case["eof_interrupted"] = draw(st.integers(1, 4))
    if mode == "length":
        total = sum(o[1] for o in ops if o[0] in ("write", "eof"))
        case["length"] = max(0, total + draw(st.sampled_from([0, 0, -1, -5, -2048, 1])))
    return case


def body_writer(rec: Rec, case: dict) -> None:
    r = run_writer_sequence(case)
    sizes = [o[1] for o in case["ops"] if o[0] in ("write", "eof")]
    nt = len(sizes) >= 2 and any(s in (0, 2047, 2048, 2049, 65535, 65536, 65537) for s in sizes)
    rec.case(case, nt, ["frame", "mode:" + case["mode"], "compress:" + str(case.get("compress")), "buf:" + case.get("buftype", "bytes")] + (["skipped"] if r.get("skipped") else []))


def unit_writer(rec: Rec, n: int, offset: int) -> None:
    hyp.run(rec, writer_cases(), body_writer, n, seed_offset=offset, max_root_causes=5)


# ------------------------------------------------------------------ C: payload sizes and multipart / FormData
class CapWriter:
    def __init__(self) -> None:
        self.data = bytearray()

    async def write(self, chunk) -> None:
        self.data += bytes(chunk)

    async def write_eof(self, chunk=b"") -> None:
        self.data += bytes(chunk)

    async def drain(self) -> None:
        pass

    def enable_compression(self, *a, **k) -> None:
        pass

    def enable_chunking(self) -> None:
        pass

    async def write_headers(self, *a, **k) -> None:
        pass


def run_payload_case(case: dict) -> None:
    import aiohttp
    from aiohttp import payload as pl

    loop = new_loop()
    tmpfiles: list = []
    opened: list = []
    try:
        async def go():
            kind = case["kind"]
            n = case["size"]
            expect = None
            data = bytes((i * 11 + 5) & 0xFF for i in range(n))
            text = ("zażółć ✓ " * (n // 8 + 1))[:n]
            if kind == "bytes":
                p = pl.BytesPayload(data)
            elif kind == "str":
                p = pl.StringPayload(text)
            elif kind == "bytesio":
                p = pl.BytesIOPayload(io.BytesIO(data))
            elif kind == "bytesio_offset":
                f = io.BytesIO(data)
                f.read(min(3, n))
                p = pl.BytesIOPayload(f)
                data = data[min(3, n):]
            elif kind == "stringio":
                p = pl.StringIOPayload(io.StringIO(text))
            elif kind in ("file_text_latin1", "file_text_crlf"):
                # a text-mode file whose bytes on disk are not the bytes that go out: another encoding than the payload's
                # (utf-8), or line ends that the text layer translates
                import tempfile

                tf = tempfile.NamedTemporaryFile(prefix="c04_", delete=False)
                tmpfiles.append(tf.name)
                if kind == "file_text_latin1":
                    ltext = ("é" * (n // 2 + 1) + "x" * n)[:n]
                    tf.write(ltext.encode("latin-1"))
                    tf.close()
                    f2 = open(tf.name, "r", encoding="latin-1")
                else:
                    ltext = ("line\r\n" * (n // 6 + 1))[:n]
                    tf.write(ltext.encode("utf-8"))
                    tf.close()
                    f2 = open(tf.name, "r", encoding="utf-8")  # universal newlines: "\r\n" is read as "\n"
                    ltext = ltext.replace("\r\n", "\n").replace("\r", "\n")
                opened.append(f2)
                p = pl.get_payload(f2)
                expect = ltext.encode("utf-8")
            elif kind in ("file_rb", "file_rb_offset", "file_text", "file_text_offset"):
                # real files (what `data=open(...)` gives the client): binary and text mode, optionally read a bit before
                import tempfile

                tf = tempfile.NamedTemporaryFile(prefix="c04_", delete=False)
                tmpfiles.append(tf.name)
                if kind.startswith("file_rb"):
                    tf.write(data)
                    tf.close()
                    f2 = open(tf.name, "rb")
                    if kind.endswith("offset"):
                        f2.read(min(3, n))
                        data = data[min(3, n):]
                    p = pl.get_payload(f2)
                    expect = data
                else:
                    tf.write(text.encode("utf-8"))
                    tf.close()
                    f2 = open(tf.name, "r", encoding="utf-8")
                    if kind.endswith("offset"):
                        f2.read(min(3, n))
                        text = text[min(3, n):]
                    p = pl.get_payload(f2)
                    expect = text.encode("utf-8")
                opened.append(f2)
            elif kind == "json":
                p = pl.JsonPayload({"k": text})
            elif kind == "multipart":
                mp = aiohttp.MultipartWriter("mixed", boundary=case.get("boundary", "bnd"))
                mp.append(data)
                mp.append(text)
                part = mp.append(io.BytesIO(data))
                for k, v in case.get("part_headers", []):
                    part.headers[k] = v
                if case.get("nested"):
                    inner = aiohttp.MultipartWriter("related")
                    inner.append("inner " + text)
                    mp.append(inner)
                p = mp
            elif kind == "formdata":
                fd = aiohttp.FormData(quote_fields=case.get("quote_fields", True))
                fd.add_field(case.get("field", "f"), text)
                fd.add_field("file", data, filename=case.get("filename", "a.bin"), content_type="application/octet-stream")
                p = fd()
            else:
                raise ValueError(kind)
            if kind == "bytes":
                expect = data
            elif kind in ("bytesio", "bytesio_offset"):
                expect = data
            elif kind in ("str", "stringio"):
                expect = text.encode("utf-8")
            first = None
            # a payload is written again when the request is re-sent (307/308 redirect, retry after a dropped connection,
            # digest-auth middleware): every send must carry the declared size and the same bytes
            for send in range(case.get("sends", 1)):
                w = CapWriter()
                size = p.size
                await p.write(w)
                if size is not None and size != len(w.data):
                    raise Violation(f"payload-size/{kind}" + ("/resend" if send else ""),
                                    f"{type(p).__name__}.size == {size} but write() #{send + 1} emitted {len(w.data)} bytes (case {case})")
                if expect is not None and bytes(w.data) != expect:
                    raise Violation(f"payload-content/{kind}" + ("/resend" if send else ""),
                                    f"{type(p).__name__}.write() #{send + 1} emitted {len(w.data)} bytes that differ from the {len(expect)} supplied (case {case})")
                if first is None:
                    first = bytes(w.data)
                elif bytes(w.data) != first:
                    raise Violation(f"payload-resend-differs/{kind}", f"{type(p).__name__}.write() #{send + 1} emitted {len(w.data)} bytes, the first send {len(first)} (case {case})")
            if kind in ("multipart", "formdata") and isinstance(p, aiohttp.MultipartWriter):
                # structure: parts split on the boundary, each with a head
                b = ("--" + p.boundary).encode()
                pieces = bytes(w.data).split(b + b"\r\n")
                nparts = len(list(p))
                if len(pieces) - 1 != nparts:
                    raise Violation("multipart-part-count", f"{len(pieces) - 1} parts on the wire for {nparts} appended")
                if not bytes(w.data).endswith(b + b"--\r\n"):
                    raise Violation("multipart-no-close", "body does not end with the closing boundary")

        loop.drive(go())
    finally:
        for f in opened:
            f.close()
        for name in tmpfiles:
            try:
                os.unlink(name)
            except OSError:
                pass
        loop.shutdown()


@st.composite
def payload_cases(draw):
    kind = draw(st.sampled_from(["bytes", "str", "bytesio", "bytesio_offset", "stringio", "json", "multipart", "multipart", "formdata", "formdata",
                                 "file_rb", "file_rb_offset", "file_text", "file_text_offset", "file_text_latin1", "file_text_crlf"]))
    case = {"kind": kind, "size": draw(st.sampled_from([0, 1, 10, 2048, 70000])), "sends": draw(st.sampled_from([1, 2, 3]))}
    if kind == "multipart":
        case["nested"] = draw(st.booleans())
        case["part_headers"] = draw(st.lists(st.tuples(st.sampled_from(["X-P", "Content-Description"]), st.sampled_from(["v", "zażółć", "a b", "✓"])), max_size=2))
    if kind == "formdata":
        case["quote_fields"] = draw(st.booleans())
        case["field"] = draw(st.sampled_from(["f", "a b", "zażółć", 'q"x', "a;b"]))
        case["filename"] = draw(st.sampled_from(["a.bin", "a b.bin", "zażółć.bin", 'q"x.bin', "a;b", "..\\x"]))
    return case


def body_payload(rec: Rec, case: dict) -> None:
    try:
        run_payload_case(case)
    except AssertionError as e:
        raise Violation(hyp.exc_key(e, "payload-raised"), repr(e)[:200])
    rec.case(case, case["size"] in (0, 2048, 70000), ["payload", "kind:" + case["kind"]])


def unit_payload(rec: Rec, n: int, offset: int) -> None:
    hyp.run(rec, payload_cases(), body_payload, n, seed_offset=offset, max_root_causes=4)


# ------------------------------------------------------------------ D: end-to-end injection through the public APIs
SPECIAL = sorted(set(list(range(0, 0x21)) + [0x22, 0x25, 0x3A, 0x3B, 0x5C, 0x7F, 0x80, 0x85, 0xA0, 0xFF, 0x100, 0x2028, 0x2029, 0xD800, 0xDFFF, 0xFEFF, 0xFFFF, 0x10FFFF]))


def run_client_inject(case: dict) -> dict:
    import aiohttp

    loop = new_loop()
    try:
        peer = memnet.ScriptPeer()
        MC = memnet.make_connector_class()
        pos, s = case["pos"], case["s"]

        def on_data(p, data):
            if b"\r\n\r\n" in p.received and not getattr(p, "answered", False):
                p.answered = True
                p.send(b"HTTP/1.1 200 OK\r\nContent-Length: 0\r\n\r\n")

        peer.on_data = on_data
        outcome: dict = {}

        async def go():
            conn = MC(lambda req, idx: (peer, memnet.Plan(), memnet.Plan()))
            session = aiohttp.ClientSession(connector=conn, timeout=aiohttp.ClientTimeout(total=5), skip_auto_headers=["User-Agent", "Accept", "Accept-Encoding"],
                                            cookie_jar=aiohttp.DummyCookieJar())
            try:
                kw: dict = {}
                method, url = "GET", "http://example.com/p"
                if pos == "method":
                    method = s
                elif pos == "path":
                    url = "http://example.com/" + s
                elif pos == "query":
                    url = "http://example.com/p"
                    kw["params"] = {"k": s}
                elif pos == "hname":
                    kw["headers"] = {s: "v"}
                elif pos == "hvalue":
                    kw["headers"] = {"X-V": s}
                elif pos == "cname":
                    kw["cookies"] = {s: "v"}
                elif pos == "cvalue":
                    kw["cookies"] = {"c": s}
                try:
                    r = await session.request(method, url, **kw)
                    outcome["status"] = r.status
                    r.release()
                except Exception as e:  # noqa: BLE001
                    outcome["error"] = type(e).__name__
            finally:
                await session.close()

        try:
            loop.drive(go(), max_time=60)
        except Quiescent:
            outcome["error"] = "hang"
        got = bytes(peer.received)
        if "error" in outcome and outcome["error"] != "hang":
            if got and pos not in ("path", "query"):
                # refused: nothing may have reached the wire (URL errors are raised before any connection exists anyway)
                raise Violation(f"bytes-before-refusal/{pos}", f"{outcome['error']} raised but {len(got)} bytes were written: {got[:80]!r}")
            return {"refused": True}
        if not got:
            return {"refused": True}
        sp = split_head(got)
        if sp is None:
            raise Violation(f"client-no-head/{pos}", f"{got[:100]!r}")
        lines, rest = sp
        if rest:
            raise Violation(f"client-extra-bytes/{pos}", f"bytes after the head of a body-less request: {rest[:60]!r} (string {s!r})")
        for ln in lines:
            if b"\r" in ln or b"\n" in ln:
                raise Violation(f"client-bare-crlf/{pos}", f"{ln[:80]!r}")
        rl = lines[0].split(b" ")
        if len(rl) != 3 or rl[2] != b"HTTP/1.1":
            raise Violation(f"client-request-line/{pos}", f"request line {lines[0][:100]!r} for string {s!r}")
        names = [ln.split(b":", 1)[0].lower() for ln in lines[1:]]
        if pos == "method" and b"content-length" in names:
            names.remove(b"content-length")  # added for methods that normally carry a body
        expected = {"method": [b"host"], "path": [b"host"], "query": [b"host"], "hname": [b"host", None], "hvalue": [b"host", b"x-v"], "cname": [b"host", b"cookie"], "cvalue": [b"host", b"cookie"]}[pos]
        if len(names) != len(expected):
            raise Violation(f"client-line-count/{pos}", f"{len(names)} header lines {names}, expected {len(expected)} (string {s!r})")
        if pos == "hvalue" and lines[-1] != b"X-V: " + s.encode("utf-8") and lines[1] != b"X-V: " + s.encode("utf-8"):
            if (b"X-V: " + s.strip(" \t").encode("utf-8")) not in lines:
                raise Violation("client-header-value-altered", f"header line for value {s!r} is {lines[1:]}")
        return {"refused": False}
    finally:
        loop.shutdown()


def run_server_inject(case: dict) -> dict:
    from aiohttp import web

    loop = new_loop()
    try:
        pos, s = case["pos"], case["s"]
        outcome: dict = {}

        async def handler(request):
            try:
                if pos == "reason":
                    resp = web.Response(text="ok", reason=s)
                elif pos == "hname":
                    resp = web.Response(text="ok", headers={s: "v"})
                elif pos == "hvalue":
                    resp = web.Response(text="ok", headers={"X-V": s})
                elif pos == "cname":
                    resp = web.Response(text="ok")
                    resp.set_cookie(s, "v")
                elif pos == "cvalue":
                    resp = web.Response(text="ok")
                    resp.set_cookie("c", s)
                elif pos == "ctype":
                    resp = web.Response(body=b"ok", content_type=s)
                elif pos == "location":
                    raise web.HTTPFound(location="/x" + s)
                else:
                    raise ValueError(pos)
            except web.HTTPException:
                raise
            except Exception as e:  # noqa: BLE001
                outcome["ctor_error"] = type(e).__name__
                return web.Response(text="refused-at-construction")
            return resp

        async def go():
            server = web.Server(handler)
            proto = server()
            peer = memnet.ScriptPeer()
            log: list = []
            memnet.connect_protocols(loop, log, peer, proto)
            peer.send(b"GET / HTTP/1.1\r\nHost: a\r\n\r\n")
            for _ in range(50):
                await asyncio.sleep(0)
            outcome["wire"] = bytes(peer.received)
            await server.shutdown(0.1)

        loop.drive(go(), max_time=100)
        wire = outcome["wire"]
        if outcome.get("ctor_error"):
            return {"refused": True}
        if not wire:
            return {"refused": True}
        sp = split_head(wire)
        if sp is None:
            raise Violation(f"server-partial/{pos}", f"string {s!r}: partial output {wire[:80]!r}")
        lines, rest = sp
        for ln in lines:
            if b"\r" in ln or b"\n" in ln:
                raise Violation(f"server-bare-crlf/{pos}", f"string {s!r}: {ln[:80]!r}")
        st_line = lines[0].split(b" ", 2)
        if len(st_line) < 2 or not st_line[1].isdigit():
            raise Violation(f"server-status-line/{pos}", f"string {s!r}: status line {lines[0][:80]!r}")
        status = int(st_line[1])
        if status == 500:
            return {"refused": True}  # refused at write time: a clean 500 instead
        names = [ln.split(b":", 1)[0].lower() for ln in lines[1:]]
        cl = [ln.split(b":", 1)[1].strip() for ln in lines[1:] if ln.lower().startswith(b"content-length:")]
        if cl and cl[0].isdigit() and len(rest) != int(cl[0]):
            raise Violation(f"server-extra-bytes/{pos}", f"string {s!r}: {len(rest)} body bytes for Content-Length {cl[0]!r}: a second message? {rest[:60]!r}")
        base = {b"content-type", b"content-length", b"date", b"server", b"connection", b"location"}
        extra = [n for n in names if n not in base]
        allowed_extra = {"reason": 0, "hname": 1, "hvalue": 1, "cname": 1, "cvalue": 1, "ctype": 0, "location": 0}[pos]
        if len(extra) > allowed_extra:
            raise Violation(f"server-header-injected/{pos}", f"string {s!r}: unexpected header lines {extra}")

        class _R:
            reason = st_line[2] if len(st_line) > 2 else b""

        r = _R()
        if pos == "reason" and r.reason != s.encode("utf-8"):
            raise Violation("server-reason-altered", f"reason {r.reason!r} for {s!r}")
        return {"refused": False}
    finally:
        loop.shutdown()


def unit_e2e(rec: Rec, side: str, positions: list, n_random: int, offset: int) -> None:
    bases = {"method": "GET", "path": "seg", "query": "val", "hname": "X-Name", "hvalue": "value", "cname": "cn", "cvalue": "cv", "reason": "Fine", "ctype": "text/plain",
             "location": "/y"}
    run = run_client_inject if side == "client" else run_server_inject
    for pos in positions:
        base = bases[pos]
        for cp in SPECIAL:
            for place in (0, len(base) // 2, len(base)):
                s = base[:place] + chr(cp) + base[place:]
                case = {"unit": "e2e", "side": side, "pos": pos, "s": s}
                try:
                    r = run(case)
                    rec.case((side, pos, cp, place), True, [f"e2e:{side}:{pos}", "refused" if r.get("refused") else "accepted"])
                except Violation as v:
                    rec.fail(v.key, v.msg, case)
                except UnicodeError:
                    rec.case((side, pos, cp, place), True, ["refused"])

    def body(rec2: Rec, case: dict) -> None:
        r = run(case)
        rec2.case(case, True, [f"e2e:{side}:{case['pos']}", "refused" if r.get("refused") else "accepted"])

    strat = st.fixed_dictionaries({"unit": st.just("e2e"), "side": st.just(side), "pos": st.sampled_from(positions),
                                   "s": st.text(alphabet=st.one_of(st.sampled_from("\r\n\t :;,=\"\\\x00\x7fév"), st.characters()), min_size=1, max_size=12)})
    hyp.run(rec, strat, body, n_random, seed_offset=offset, max_root_causes=4)


def run_part_inject(case: dict) -> dict:
    """Multipart part headers and FormData names: either refused, or exactly the supplied lines."""
    import aiohttp

    loop = new_loop()
    try:
        pos, s = case["pos"], case["s"]

        async def go():
            w = CapWriter()
            try:
                if pos in ("part_hname", "part_hvalue"):
                    mp = aiohttp.MultipartWriter("mixed", boundary="bnd")
                    part = mp.append(b"data")
                    if pos == "part_hname":
                        part.headers[s] = "v"
                    else:
                        part.headers["X-P"] = s
                    nparts = 1
                    _ = mp.size  # what ClientRequest / web.Response consult before any byte is sent
                    await mp.write(w)
                else:
                    fd = aiohttp.FormData(quote_fields=case.get("quote_fields", True))
                    if pos == "fd_name":
                        fd.add_field(s, "value")
                    elif pos == "fd_filename":
                        fd.add_field("f", b"data", filename=s)
                    elif pos == "fd_ctype":
                        fd.add_field("f", b"data", filename="x", content_type=s)
                    p = fd()
                    if not isinstance(p, aiohttp.MultipartWriter):
                        return {"refused": False, "urlencoded": True}
                    nparts = 1
                    _ = p.size
                    await p.write(w)
            except (ValueError, TypeError, UnicodeError, AssertionError, LookupError):
                if w.data:
                    raise Violation(f"bytes-before-refusal/{pos}", f"refused but {len(w.data)} bytes written")
                return {"refused": True}
            data = bytes(w.data)
            m = __import__("re").match(rb"--([^\r\n]+)\r\n", data)
            if not m:
                raise Violation(f"part-no-boundary/{pos}", f"{data[:60]!r}")
            b = b"--" + m.group(1)
            pieces = data.split(b + b"\r\n")
            if len(pieces) - 1 != nparts or not data.endswith(b + b"--\r\n"):
                raise Violation(f"part-count/{pos}", f"string {s!r}: {len(pieces) - 1} parts / bad close: {data[:120]!r}")
            head, _, bodyb = pieces[1].partition(b"\r\n\r\n")
            lines = head.split(b"\r\n")
            for ln in lines:
                if b"\r" in ln or b"\n" in ln or b":" not in ln:
                    raise Violation(f"part-line/{pos}", f"string {s!r}: part head line {ln[:80]!r}")
            names = sorted(ln.split(b":", 1)[0].lower() for ln in lines)
            auto = {b"content-type", b"content-disposition", b"content-length"}
            extra = [n for n in names if n not in auto]
            if len(extra) > (1 if pos in ("part_hname", "part_hvalue") else 0):
                raise Violation(f"part-header-injected/{pos}", f"string {s!r}: part head has lines {names}")
            if not bodyb.startswith(b"data\r\n") and not bodyb.startswith(b"value\r\n"):
                raise Violation(f"part-body-shifted/{pos}", f"string {s!r}: part body {bodyb[:40]!r}")
            return {"refused": False}

        return loop.drive(go())
    finally:
        loop.shutdown()


def unit_parts(rec: Rec, n_random: int, offset: int) -> None:
    bases = {"part_hname": "X-Part", "part_hvalue": "value", "fd_name": "field", "fd_filename": "file.txt", "fd_ctype": "text/plain"}
    for pos, base in bases.items():
        for qf in ((True, False) if pos.startswith("fd_") else (True,)):
            for cp in SPECIAL:
                for place in (0, len(base) // 2, len(base)):
                    s = base[:place] + chr(cp) + base[place:]
                    case = {"unit": "parts", "pos": pos, "s": s, "quote_fields": qf}
                    try:
                        r = run_part_inject(case)
                        rec.case((pos, cp, place, qf), True, [f"parts:{pos}", "refused" if r.get("refused") else "accepted"])
                    except Violation as v:
                        rec.fail(v.key, v.msg, case)

    def body(rec2: Rec, case: dict) -> None:
        r = run_part_inject(case)
        rec2.case(case, True, [f"parts:{case['pos']}", "refused" if r.get("refused") else "accepted"])

    strat = st.fixed_dictionaries({"unit": st.just("parts"), "pos": st.sampled_from(sorted(bases)), "quote_fields": st.booleans(),
                                   "s": st.text(alphabet=st.one_of(st.sampled_from("\r\n\t :;,=\"\\\x00\x7fév-"), st.characters()), min_size=1, max_size=12)})
    hyp.run(rec, strat, body, n_random, seed_offset=offset, max_root_causes=4)


# ------------------------------------------------------------------ units
def units(tier: str, seed: int) -> list[Unit]:
    us = []
    ns = 4 if tier == "quick" else 16
    for sh in range(ns):
        us.append(Unit(f"serialise{sh}", unit_serialise, {"shard": sh, "nshards": ns}))
    n = 1000 if tier == "quick" else 12000
    for i in range(4):
        us.append(Unit(f"writer{i}", unit_writer, {"n": n, "offset": i}))
    for i in range(2):
        us.append(Unit(f"payload{i}", unit_payload, {"n": n // 2, "offset": 20 + i}))
    nr = 200 if tier == "quick" else 3000
    us.append(Unit("e2e-client-a", unit_e2e, {"side": "client", "positions": ["method", "path", "query"], "n_random": nr, "offset": 40}))
    us.append(Unit("e2e-client-b", unit_e2e, {"side": "client", "positions": ["hname", "hvalue"], "n_random": nr, "offset": 41}))
    us.append(Unit("e2e-client-c", unit_e2e, {"side": "client", "positions": ["cname", "cvalue"], "n_random": nr, "offset": 42}))
    us.append(Unit("e2e-server-a", unit_e2e, {"side": "server", "positions": ["reason", "hname", "hvalue"], "n_random": nr, "offset": 43}))
    us.append(Unit("parts", unit_parts, {"n_random": nr * 3, "offset": 45}))
    us.append(Unit("e2e-server-b", unit_e2e, {"side": "server", "positions": ["cname", "cvalue", "ctype", "location"], "n_random": nr, "offset": 44}))
    return us


def replay(rec: Rec, case: dict) -> None:
    u = case.get("unit")
    if u == "serialise":
        from multidict import CIMultiDict

        from aiohttp.http_writer import _py_serialize_headers

        base = {"start": "HTTP/1.1 200 OK", "name": "X-Name", "value": "some value"}[case["pos"]]
        s = base[:case["place"]] + chr(case["cp"]) + base[case["place"]:]
        start = s if case["pos"] == "start" else "HTTP/1.1 200 OK"
        fields = [("Host", "a"), (s if case["pos"] == "name" else "X-Name", s if case["pos"] == "value" else "v"), ("Z", "z")]
        try:
            out = _py_serialize_headers(start, CIMultiDict(fields))
        except (ValueError, UnicodeError):
            return
        check_head(out, start, fields, f"serialise-{case['pos']}")
    elif u == "serialise_combo":
        from multidict import CIMultiDict

        from aiohttp.http_writer import _py_serialize_headers

        base = {"start": "HTTP/1.1 200 OK", "name": "X-Name", "value": "some value"}[case["pos"]]
        s2 = base[:case["place"]] + case["ins"] + base[case["place"]:]
        start = s2 if case["pos"] == "start" else "HTTP/1.1 200 OK"
        fields = [("Host", "a"), (s2 if case["pos"] == "name" else "X-Name", s2 if case["pos"] == "value" else "v"), ("Z", "z")]
        try:
            out = _py_serialize_headers(start, CIMultiDict(fields))
        except (ValueError, UnicodeError):
            return
        check_head(out, start, fields, f"serialise-{case['pos']}")
    elif u == "parts":
        run_part_inject(case)
    elif u == "e2e":
        (run_client_inject if case["side"] == "client" else run_server_inject)(case)
    elif "ops" in case:
        run_writer_sequence(case)
    elif "kind" in case:
        run_payload_case(case)
