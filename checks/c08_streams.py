"""C08 StreamReader: exact ordered delivery with back-pressure.

Generated operation sequences (producer and consumer operations interleaved)
are applied to a real aiohttp.streams.StreamReader and to a byte-string model.
"""
from __future__ import annotations

import asyncio
import itertools
import warnings

from hypothesis import strategies as st

from vlib import hyp
from vlib.detloop import new_loop
from vlib.runner import Rec, Unit, Violation

PROPERTY = "C08"
LEVEL = "exploration"
RULE = (
    "case = (limit, chunked?, op list); producer ops feed(bytes)/end-of-chunk/eof/set_exception, consumer ops "
    "read(n)/read()/readany/readline/readuntil(sep)/readexactly/readchunk/read_nowait/iter_*/unread_data; "
    "Hypothesis-generated lists plus exhaustive enumeration of all sequences up to a length bound over a reduced "
    "alphabet. Non-trivial = a read completed across a sender chunk boundary or returned part of a fed block, or a "
    "pause/resume transition happened, or a consumer was left pending and later woken. distinct = canonical case."
)
ASSUMPTIONS = [
    "single consumer at a time (documented: a second concurrent read raises RuntimeError), no consumer cancellation",
    "producer respects the parser's calling discipline (no feed after eof; begin before end)",
    "water marks are those reported by the public get_read_buffer_limits()",
]

warnings.simplefilter("ignore", DeprecationWarning)


class StubProtocol:
    """Records pause/resume like BaseProtocol does for a transport."""

    def __init__(self) -> None:
        self.paused = False
        self.log: list[str] = []
        self.connected = True
        self.transitions = 0

    def pause_reading(self) -> None:
        if not self.paused:
            self.transitions += 1
        self.paused = True
        self.log.append("pause")

    def resume_reading(self, resume_parser: bool = True) -> None:
        if self.paused:
            self.transitions += 1
        self.paused = False
        self.log.append("resume")


class MyExc(Exception):
    pass


CONSUMER = {"read", "readall", "readany", "readline", "readuntil", "readexactly", "readchunk", "nowait",
            "iter_chunked", "iter_any", "iter_line", "iter_chunks"}


class Model:
    def __init__(self) -> None:
        self.fed = bytearray()
        self.cursor = 0
        self.bounds: list[int] = []  # sender chunk ends (absolute offsets), strictly increasing
        self.ends: dict[int, int] = {}  # offset -> number of sender chunk ends there (empty chunks repeat)
        self.reported: dict[int, int] = {}
        self.dontcare: set[int] = set()  # boundaries re-exposed by unread_data: re-reporting is unspecified
        self.eof = False
        self.exc = False
        self.in_chunk = False

    @property
    def avail(self) -> bytes:
        return bytes(self.fed[self.cursor:])


def _viol(key: str, msg: str) -> Violation:
    return Violation(key, msg)


def execute(case: dict) -> dict:
    """Run one case; raises Violation.  Returns stats for non-triviality."""
    from aiohttp.http_exceptions import LineTooLong
    from aiohttp.streams import StreamReader

    limit = case["limit"]
    chunked = case["chunked"]
    ops = case["ops"]
    loop = new_loop()
    stats = {"partial": False, "cross": False, "woken": False, "transitions": 0, "nread": 0}
    try:
        proto = StubProtocol()
        s = StreamReader(proto, limit, loop=loop)  # type: ignore[arg-type]
        m = Model()
        out = bytearray()  # everything returned to the consumer (minus unread)
        last_ret = b""
        pending: tuple | None = None  # (op, task, cursor_at_start)
        iters: dict = {}
        line_too_long = False

        def check_result(op: tuple, res, cur0: int) -> None:
            """Validate a completed consumer op against the model (at completion time)."""
            nonlocal last_ret, line_too_long
            kind = op[0]
            stats["nread"] += 1
            if isinstance(res, BaseException):
                if isinstance(res, MyExc):
                    if not m.exc:
                        raise _viol("spurious-exception", f"{op} raised the stream exception before set_exception")
                    return
                if isinstance(res, StopAsyncIteration):
                    # iterators stop on b"" (EOF) -- treat as an EOF report
                    res = (b"", False) if kind == "iter_chunks" else b""
                elif isinstance(res, asyncio.IncompleteReadError) and kind == "readexactly":
                    if not m.eof:
                        raise _viol("eof-before-eof", f"{op}: IncompleteReadError before feed_eof")
                    part = res.partial
                    if part != m.avail:
                        raise _viol("readexactly-partial", f"{op}: partial={part!r} expected all remaining {m.avail!r}")
                    if len(part) >= op[1]:
                        raise _viol("readexactly-partial", f"{op}: IncompleteReadError with {len(part)} bytes available")
                    # the partial bytes were consumed
                    m.cursor += len(part)
                    out.extend(part)
                    last_ret = bytes(part)
                    return
                elif isinstance(res, LineTooLong) and kind in ("readline", "readuntil", "iter_line"):
                    _, high = s.get_read_buffer_limits()
                    sep = op[1] if kind == "readuntil" else b"\n"
                    av = m.avail
                    i = av.find(sep)
                    seg = av if i < 0 else av[: i + len(sep)]
                    if len(sep) > 1:
                        # multi-byte separators straddling two feeds are outside what C08 states
                        # (see DESIGN.md 6, corrections): only "too long" relative to all data is checked
                        seg = av
                    if len(seg) <= high:
                        raise _viol("linetoolong-spurious", f"{op}: LineTooLong for a {len(seg)}-byte line, limit {high}")
                    line_too_long = True  # bytes were consumed into the error: the case ends here
                    return
                else:
                    raise _viol(hyp.exc_key(res), f"{op} raised {res!r}")
            if m.exc:
                raise _viol("exception-not-raised", f"{op} returned {res!r} after set_exception")
            flag = None
            if kind in ("readchunk", "iter_chunks"):
                data, flag = res
            else:
                data = res
            if not isinstance(data, bytes):
                raise _viol("not-bytes", f"{op} returned {type(data).__name__}")
            av = m.avail
            if av[: len(data)] != data:
                raise _viol("content", f"{op} returned {data!r}; the next unread bytes are {av[:len(data) + 8]!r}")
            c0, c1 = m.cursor, m.cursor + len(data)
            # ---- per-operation semantics
            if kind in ("read", "iter_chunked", "nowait"):
                n = op[1]
                if n >= 0 and len(data) > n:
                    raise _viol("read-too-much", f"{op} returned {len(data)} bytes")
                if n != 0 and not data and kind != "nowait" and not (m.eof and not av):
                    raise _viol("eof-early", f"{op} returned b'' with {len(av)} bytes unread, eof={m.eof}")
            elif kind in ("readany", "iter_any"):
                if not data and not (m.eof and not av):
                    raise _viol("eof-early", f"{op} returned b'' with {len(av)} bytes unread, eof={m.eof}")
            elif kind == "readall":
                if not m.eof:
                    raise _viol("eof-early", f"{op} completed before feed_eof")
                if data != av:
                    raise _viol("readall-short", f"{op} returned {len(data)} of {len(av)} bytes")
            elif kind in ("readline", "readuntil", "iter_line"):
                sep = op[1] if kind == "readuntil" else b"\n"
                i = av.find(sep)
                if len(sep) > 1:
                    # lenient oracle (see above): a prefix that ends with the separator, or the rest at eof
                    if not (data.endswith(sep) or (m.eof and data == av)):
                        raise _viol("readuntil-multibyte", f"{op} returned {data!r} (avail {av!r}, eof={m.eof})")
                elif i >= 0:
                    want = av[: i + len(sep)]
                    if data != want:
                        raise _viol("readuntil-" + ("multibyte-sep" if len(sep) > 1 else "sep"),
                                    f"{op} returned {data!r}, expected {want!r}")
                else:
                    if not m.eof:
                        raise _viol("eof-early", f"{op} returned {data!r} without separator before eof")
                    if data != av:
                        raise _viol("readuntil-eof", f"{op} returned {data!r}, expected the rest {av!r}")
            elif kind == "readexactly":
                if len(data) != op[1]:
                    raise _viol("readexactly-len", f"{op} returned {len(data)} bytes")
            elif kind in ("readchunk", "iter_chunks"):
                if not chunked and flag:
                    raise _viol("chunk-flag-nonchunked", f"{op} -> end_of_chunk=True without chunked encoding")
                inside = [b for b in m.bounds if c0 < b < c1 and b not in m.dontcare]
                if inside:
                    raise _viol("chunk-boundary-crossed", f"{op} returned {data!r} from {c0} crossing sender chunk end(s) {inside}")
                if flag:
                    if c1 not in m.bounds:
                        raise _viol("chunk-boundary-invented", f"{op} reported a chunk end at {c1}; sender ends {m.bounds}")
                    m.reported[c1] = m.reported.get(c1, 0) + 1
                    if m.reported[c1] > m.ends.get(c1, 0) and c1 not in m.dontcare:
                        raise _viol("chunk-boundary-twice", f"{op} reported chunk end {c1} {m.reported[c1]}x; sender ended {m.ends.get(c1, 0)} chunk(s) there")
                else:
                    if data and c1 in m.bounds and not m.reported.get(c1) and c1 not in m.dontcare:
                        raise _viol("chunk-boundary-missed", f"{op} returned data ending at sender chunk end {c1} with flag False")
                    if not data and not (m.eof and not av):
                        raise _viol("eof-early", f"{op} returned (b'', False) with {len(av)} unread, eof={m.eof}")
            # ---- non-triviality
            if data:
                # returned part of a fed block / crossed a block edge
                if any(c0 < e < c1 for e in edges) or (c0 not in edges_set or c1 not in edges_set):
                    stats["partial"] = True
                if any(c0 <= b < c1 for b in m.bounds) and kind not in ("readchunk", "iter_chunks"):
                    stats["cross"] = True
            m.cursor = c1
            out.extend(data)
            last_ret = data

        edges: list[int] = [0]
        edges_set = {0}

        def settle() -> None:
            nonlocal pending
            loop.run_until_idle()
            if pending is not None and pending[1].done():
                op, task, cur0 = pending
                pending = None
                stats["woken"] = True
                try:
                    res = task.result()
                except BaseException as e:  # noqa: BLE001
                    res = e
                check_result(op, res, cur0)

        def can_complete(op: tuple) -> bool:
            """Model: must a consumer blocked in `op` have completed by now?"""
            if m.exc or m.eof:
                return True
            av = m.avail
            k = op[0]
            if k in ("read", "iter_chunked", "readany", "iter_any"):
                return bool(av)
            if k in ("readchunk", "iter_chunks"):
                return bool(av)
            if k in ("readline", "iter_line"):
                return b"\n" in av
            if k == "readuntil":
                return len(op[1]) == 1 and op[1] in av
            if k == "readexactly":
                return len(av) >= op[1]
            return False  # readall needs eof

        def flow_checks(after_consumer: bool, after_feed: bool = False) -> None:
            if m.eof or m.exc or line_too_long:
                return
            low, high = s.get_read_buffer_limits()
            if low < limit or high < 2 * limit:
                raise _viol("limits-lowered", f"limits {(low, high)} below configured {limit}")
            if pending is not None:
                # blocked consumers have drained everything that was buffered
                if proto.paused:
                    raise _viol("stuck-paused", f"consumer blocked in {pending[0]} while reading is paused")
                return
            buffered = len(m.fed) - m.cursor
            if after_feed and buffered > high and not proto.paused:
                raise _viol("not-paused-above-high-water", f"{buffered} bytes buffered > high water {high}, reading not paused")
            if after_consumer and proto.paused and buffered < low and not any(b > m.cursor for b in m.bounds):
                raise _viol("not-resumed-below-low-water", f"{buffered} bytes buffered < low water {low}, no chunk ends pending, still paused")

        for op in ops:
            op = tuple(op)
            kind = op[0]
            if line_too_long:
                break
            if kind == "feed":
                if m.eof or m.exc:
                    continue
                data = op[1]
                if chunked and not m.in_chunk:
                    s.begin_http_chunk_receiving()
                    m.in_chunk = True
                s.feed_data(data)
                m.fed.extend(data)
                if data:
                    edges.append(len(m.fed))
                    edges_set.add(len(m.fed))
                settle()
                flow_checks(False, after_feed=bool(data))
            elif kind == "end":
                if not chunked or m.eof or m.exc:
                    continue
                if not m.in_chunk:
                    s.begin_http_chunk_receiving()
                s.end_http_chunk_receiving()
                m.in_chunk = False
                m.ends[len(m.fed)] = m.ends.get(len(m.fed), 0) + 1
                if len(m.fed) > (m.bounds[-1] if m.bounds else 0):
                    m.bounds.append(len(m.fed))
                settle()
                flow_checks(False)
            elif kind == "eof":
                if m.eof or m.exc:
                    continue
                if chunked and m.in_chunk:
                    s.end_http_chunk_receiving()
                    m.in_chunk = False
                    m.ends[len(m.fed)] = m.ends.get(len(m.fed), 0) + 1
                    if len(m.fed) > (m.bounds[-1] if m.bounds else 0):
                        m.bounds.append(len(m.fed))
                s.feed_eof()
                m.eof = True
                settle()
            elif kind == "exc":
                if m.exc:
                    continue
                s.set_exception(MyExc("boom"))
                m.exc = True
                settle()
            elif kind == "end_exc":
                # the end of an HTTP chunk and a payload error in the same loop iteration (what the parser does when the
                # last chunk of a corrupt compressed body arrives): the chunk end wakes a waiting reader without data
                if m.exc or m.eof:
                    continue
                if chunked:
                    if not m.in_chunk:
                        s.begin_http_chunk_receiving()
                    s.end_http_chunk_receiving()
                    m.in_chunk = False
                    m.ends[len(m.fed)] = m.ends.get(len(m.fed), 0) + 1
                    if len(m.fed) > (m.bounds[-1] if m.bounds else 0):
                        m.bounds.append(len(m.fed))
                s.set_exception(MyExc("boom"))
                m.exc = True
                settle()
                if pending is not None:
                    raise _viol("lost-wakeup/exception-after-chunk-end", f"{pending[0]} still blocked although the stream has an exception set")
            elif kind == "unread":
                if pending is not None or m.exc:
                    continue
                k = min(op[1], len(last_ret))
                if k == 0:
                    continue
                data = last_ret[len(last_ret) - k:]
                s.unread_data(data)
                m.cursor -= k
                del out[len(out) - k:]
                last_ret = last_ret[: len(last_ret) - k]
                # boundaries at/after the new cursor may legitimately be reported again
                m.dontcare |= {b for b in m.reported if b >= m.cursor}
                # ... and chunk ends inside the pushed-back bytes are gone for good: the stream forgot them when a read
                # went past them, and unread_data() (deprecated) re-queues plain bytes
                m.dontcare |= {b for b in m.bounds if m.cursor <= b <= m.cursor + k}
                stats["partial"] = True
            elif kind in CONSUMER:
                if pending is not None:
                    continue  # one consumer at a time
                if kind == "nowait":
                    try:
                        res = s.read_nowait(op[1])
                    except BaseException as e:  # noqa: BLE001
                        res = e
                    check_result(op, res, m.cursor)
                    flow_checks(True)
                    continue
                if kind == "read":
                    coro = s.read(op[1])
                elif kind == "readall":
                    coro = s.read()
                elif kind == "readany":
                    coro = s.readany()
                elif kind == "readline":
                    coro = s.readline()
                elif kind == "readuntil":
                    coro = s.readuntil(op[1])
                elif kind == "readexactly":
                    coro = s.readexactly(op[1])
                elif kind == "readchunk":
                    coro = s.readchunk()
                else:
                    if kind == "iter_chunked":
                        it = s.iter_chunked(op[1])
                    else:
                        if kind not in iters:
                            iters[kind] = {"iter_any": s.iter_any, "iter_line": s.__aiter__,
                                           "iter_chunks": s.iter_chunks}[kind]()
                        it = iters[kind]
                    coro = it.__anext__()
                task = loop.create_task(coro)
                pending = (op, task, m.cursor)
                woken_before = stats["woken"]
                settle()
                if pending is None:
                    stats["woken"] = woken_before  # completed at once: not a wake-up
                elif can_complete(op):
                    raise _viol("blocked-with-data", f"{op} blocked although it can complete: avail={m.avail[:40]!r} eof={m.eof}")
                flow_checks(True)
            else:
                raise ValueError(op)
            if pending is not None and can_complete(pending[0]):
                settle()
                if pending is not None:
                    raise _viol("lost-wakeup", f"{pending[0]} still blocked after {op}: avail={m.avail[:40]!r} eof={m.eof}")

        # ---- final drain: conservation
        woken_in_ops = stats["woken"]
        if not line_too_long:
            if not m.exc and not m.eof:
                if chunked and m.in_chunk:
                    s.end_http_chunk_receiving()
                    m.in_chunk = False
                    m.ends[len(m.fed)] = m.ends.get(len(m.fed), 0) + 1
                    if len(m.fed) > (m.bounds[-1] if m.bounds else 0):
                        m.bounds.append(len(m.fed))
                s.feed_eof()
                m.eof = True
            settle()
            if pending is not None:
                raise _viol("lost-wakeup", f"{pending[0]} still blocked after eof/exception")
            if not m.exc:
                if s.at_eof() and m.avail:
                    raise _viol("eof-early", f"at_eof() with {len(m.avail)} bytes unread")
                task = loop.create_task(s.read())
                pending = (("readall",), task, m.cursor)
                settle()
                if pending is not None:
                    raise _viol("lost-wakeup", "final read() blocked after eof")
                if bytes(out) != bytes(m.fed):
                    raise _viol("conservation", f"returned {bytes(out)!r} != fed {bytes(m.fed)!r}")
                if not s.at_eof():
                    raise _viol("eof-missing", "at_eof() false after everything was read")
        if loop.exc_contexts:
            raise _viol("loop-exception", repr(loop.exc_contexts[0])[:300])
        stats["transitions"] = proto.transitions
        stats["woken"] = woken_in_ops
        return stats
    finally:
        loop.shutdown()


def body(rec: Rec, case: dict) -> None:
    stats = execute(case)
    nt = bool(stats["partial"] or stats["cross"] or stats["woken"] or stats["transitions"])
    labels = [k for k in ("partial", "cross", "woken") if stats[k]]
    if stats["transitions"]:
        labels.append("pause_resume")
    if case["chunked"]:
        labels.append("chunked")
    rec.case(case, nt, labels)


# ---------------------------------------------------------------- generators
ALPHA = b"ab\n"


def _bytes(maxn: int):
    return st.lists(st.sampled_from(list(ALPHA)), max_size=maxn).map(bytes)


@st.composite
def cases(draw):
    limit = draw(st.sampled_from([1, 2, 3, 4, 8, 16, 64]))
    chunked = draw(st.booleans())
    big = 3 * limit if limit <= 16 else 40
    feed = st.tuples(st.just("feed"), st.one_of(_bytes(6), _bytes(big)))
    n = st.one_of(st.integers(1, 6), st.integers(1, max(2, 3 * limit)).filter(lambda v: v <= 200))
    op = st.one_of(
        feed, feed, feed,
        st.just(("end",)),
        st.tuples(st.just("read"), n),
        st.just(("readany",)),
        st.just(("readline",)),
        st.tuples(st.just("readuntil"), st.sampled_from([b"\n", b"a", b"b"])),
        st.tuples(st.just("readexactly"), st.integers(1, 8)),
        st.just(("readchunk",)),
        st.tuples(st.just("nowait"), st.sampled_from([-1, 0, 1, 2, 5])),
        st.tuples(st.just("iter_chunked"), st.integers(1, 6)),
        st.sampled_from([("iter_any",), ("iter_line",), ("iter_chunks",)]),
        st.tuples(st.just("unread"), st.integers(1, 4)),
        st.sampled_from([("eof",), ("readall",), ("exc",), ("end_exc",), ("read", 0)]),
    )
    ops = draw(st.lists(op, min_size=1, max_size=40))
    return {"limit": limit, "chunked": chunked, "ops": ops}


@st.composite
def cases_multisep(draw):
    """readuntil with a multi-byte separator (may be split across feeds)."""
    limit = draw(st.sampled_from([4, 16, 64]))
    sep = draw(st.sampled_from([b"ab", b"\n\n", b"ba"]))
    op = st.one_of(
        st.tuples(st.just("feed"), _bytes(5)),
        st.tuples(st.just("readuntil"), st.just(sep)),
        st.just(("eof",)),
    )
    return {"limit": limit, "chunked": False, "ops": draw(st.lists(op, min_size=2, max_size=14))}


def unit_hyp(rec: Rec, n: int, offset: int) -> None:
    hyp.run(rec, cases(), body, n, seed_offset=offset)


def unit_multisep(rec: Rec, n: int) -> None:
    hyp.run(rec, cases_multisep(), body, n, seed_offset=500)


ENUM_OPS = [
    ("feed", b"ab"), ("feed", b"a\nb"), ("feed", b""), ("end",), ("eof",),
    ("read", 1), ("read", 2), ("readany",), ("readchunk",), ("readline",), ("unread", 1),
]


def unit_enum(rec: Rec, length: int, limit: int, chunked: bool, shard: int, nshards: int) -> None:
    i = -1
    for seq in itertools.product(ENUM_OPS, repeat=length):
        i += 1
        if i % nshards != shard:
            continue
        if (i & 1023) == 0 and rec.expired():
            rec.exhaustive = False
            return
        case = {"limit": limit, "chunked": chunked, "ops": [list(o) for o in seq]}
        try:
            body(rec, case)
        except Violation as v:
            rec.fail(v.key, v.msg, case)
    rec.exhaustive = True


def unit_protocol(rec: Rec, n: int, offset: int) -> None:
    """Back-pressure through the real stack: ResponseHandler + HttpResponseParser + StreamReader on an in-memory
    transport that honours pause_reading (the resume path re-enters the parser).  Reuses the C09 harness; only its
    flow-control oracles (not-paused-over-high-water, memory-bound, stall) are C08's business."""
    from checks import c09_decoding as c09

    def body_p(rec2: Rec, case: dict) -> None:
        try:
            stats = c09.execute(case)
        except Violation as v:
            if v.key.startswith(("not-paused-over-high-water", "memory-bound", "stall")):
                raise Violation("protocol/" + v.key, v.msg)
            return  # decoding-level findings belong to C09
        rec2.case(case, case["limit"] * 10 < stats.get("plain", 0), ["protocol-level"])

    hyp.run(rec, c09.backpressure_cases(), body_p, n, seed_offset=offset, max_root_causes=3)


EMPTY_PATTERNS = ["iter_chunks", "readchunk_loop", "read", "readany", "iter_any", "iter_chunked", "readline", "readchunk_once"]


def check_empty(rec: Rec, case: dict) -> None:
    """Body-less messages (HEAD, 204, 304, Content-Length: 0) share ONE reader object per process: whatever pattern read the
    previous ones, the next reader still gets no bytes and an end of stream after finitely many steps."""
    from aiohttp.streams import EMPTY_PAYLOAD

    loop = new_loop()
    try:
        async def use(pattern: str) -> int:
            s = EMPTY_PAYLOAD
            steps = 0
            if pattern == "iter_chunks":
                async for data, _end in s.iter_chunks():
                    steps += 1
                    if data or steps > 20:
                        return -steps
            elif pattern == "readchunk_loop":
                while True:
                    data, end = await s.readchunk()
                    steps += 1
                    if data or steps > 20:
                        return -steps
                    if not end:
                        break
            elif pattern == "readchunk_once":
                await s.readchunk()
            elif pattern == "read":
                if await s.read():
                    return -1
            elif pattern == "readany":
                if await s.readany():
                    return -1
            elif pattern == "readline":
                if await s.readline():
                    return -1
            elif pattern == "iter_any":
                async for _d in s.iter_any():
                    steps += 1
                    if steps > 20:
                        return -steps
            elif pattern == "iter_chunked":
                async for _d in s.iter_chunked(8):
                    steps += 1
                    if steps > 20:
                        return -steps
            return steps

        async def go():
            for k, pattern in enumerate(case["uses"]):
                r = await use(pattern)
                if r < 0:
                    raise Violation("empty-body-never-ends", f"body-less message #{k + 1} read with {pattern} after {case['uses'][:k]}: data or no end of stream after {-r} steps")

        loop.drive(go(), max_time=10)
    finally:
        loop.shutdown()
    rec.case(case, len(case["uses"]) >= 2, ["empty-payload"])


def unit_empty(rec: Rec) -> None:
    rec.exhaustive = True
    for uses in itertools.product(EMPTY_PATTERNS, repeat=3):
        case = {"uses": list(uses)}
        try:
            check_empty(rec, case)
        except Violation as v:
            if v.key in rec.muted:
                continue
            rec.fail(v.key, v.msg, case)
            rec.muted.add(v.key)


def units(tier: str, seed: int) -> list[Unit]:
    us: list[Unit] = []
    if tier == "quick":
        nh, length, shards = 1500, 5, 3
    else:
        nh, length, shards = 25000, 6, 12
    for i in range(8):
        us.append(Unit(f"hyp{i}", unit_hyp, {"n": nh, "offset": i}))
    us.append(Unit("multisep", unit_multisep, {"n": nh}))
    us.append(Unit("empty-payload", unit_empty, {}))
    for i in range(4):
        us.append(Unit(f"protocol{i}", unit_protocol, {"n": 30 if tier == "quick" else 1500, "offset": 700 + i}))
    for L in range(1, length + 1):
        for limit in (1, 2):
            for chunked in (False, True):
                ns = shards if L == length else 1
                for sh in range(ns):
                    us.append(Unit(f"enum-L{L}-lim{limit}-{'c' if chunked else 'p'}-{sh}", unit_enum,
                                   {"length": L, "limit": limit, "chunked": chunked, "shard": sh, "nshards": ns}))
    return us


def replay(rec: Rec, case: dict) -> None:
    if "uses" in case:
        check_empty(rec, case)
        return
    execute(case)
