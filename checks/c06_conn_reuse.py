"""C06 Client connection reuse never mixes responses."""
from __future__ import annotations

import asyncio
import logging
import re

from hypothesis import strategies as st

from vlib import hyp, memnet
from vlib.detloop import Quiescent, new_loop
from vlib.runner import Rec, Unit, Violation

PROPERTY = "C06"
LEVEL = "exploration"
RULE = (
    "case = history on one ClientSession with scripted in-memory peers: requests to a lattice of endpoints (3 hosts x 2 "
    "ports x http/https x no proxy / proxy with identity A / identity B), each answered by a scripted response "
    "(Content-Length / chunked / EOF-delimited, truncated at k, close after) optionally followed by surplus bytes "
    "(garbage, a complete or partial extra response) in the same segment or later; the application reads the body "
    "fully / partially / not at all and releases or closes; unsolicited bytes on idle pooled connections; virtual-time "
    "advances (keep-alive expiry).  Oracle: every response delivered carries the exchange marker of its own request "
    "in status line headers and body; a connection that saw surplus/unsolicited/truncated/unread/failed exchanges is "
    "never handed another request; a reused connection was created for the same independently computed (host, port, "
    "tls, proxy, proxy identity).  Non-trivial = >= 2 requests for one endpoint and at least one misbehaviour, or >= 2 requests for one host:port whose "
    "connection keys differ (scheme, ssl= setting, server_hostname, proxy, proxy identity) with a reusable connection in the pool.  "
    "distinct = canonical history."
)
ASSUMPTIONS = [
    "requests are issued one after another (histories, not concurrent schedules); peers answer as soon as a request head is complete",
    "surplus / unsolicited bytes are only injected while no later request has been handed to that connection, so any such byte reaching a later response is a violation",
    "TLS is not performed: https and the per-request ssl= setting (default / False / two fingerprints / two contexts / two server_hostname values) only change the connection key",
]

for _n in ("aiohttp.client", "aiohttp.internal", "asyncio"):
    logging.getLogger(_n).disabled = True

HOSTS = ["h1.example", "h2.example", "h1.example.org"]
PORTS = [80, 8080]
# per-request TLS settings (aiohttp keys connections on them: a connection verified one way must not carry a request
# that asked for another verification).  Index 0 = default verification.
def _tls_settings():
    import ssl

    import aiohttp
    return [{}, {"ssl": False}, {"ssl": aiohttp.Fingerprint(b"\x01" * 32)}, {"ssl": aiohttp.Fingerprint(b"\x02" * 32)},
            {"ssl": ssl.create_default_context()}, {"ssl": ssl.create_default_context()},
            {"server_hostname": "alt.example"}, {"server_hostname": "other.example"}]


TLS_SETTINGS: list = []
PROXIES = [None, ("http://proxy.example:3128", "alice", "t1"), ("http://proxy.example:3128", "bob", "t1"), ("http://proxy.example:3128", "alice", "t2")]


class Peer(memnet.ScriptPeer):
    """One scripted server connection."""

    def __init__(self, world: "World", idx: int, key: tuple) -> None:
        super().__init__()
        self.world = world
        self.idx = idx
        self.key = key  # independently computed endpoint identity this connection was opened for
        self.tainted: str | None = None  # why this connection must never carry another request
        self.buf = bytearray()
        self.busy = False  # a request is being answered
        self.requests: list[int] = []
        self.close_on_eof = True

    def data_received(self, data: bytes) -> None:
        self.buf += data
        while True:
            i = self.buf.find(b"\r\n\r\n")
            if i < 0:
                return
            head = bytes(self.buf[:i])
            del self.buf[:i + 4]
            self.world.on_request(self, head)


class World:
    def __init__(self, loop, case: dict) -> None:
        self.loop = loop
        self.case = case
        self.peers: list[Peer] = []
        self.log: list = []
        self.current: dict | None = None  # the op being executed
        self.violations: list = []
        self.serial = 0

    def endpoint_key(self, op: dict) -> tuple:
        proxy = PROXIES[op.get("proxy", 0)]
        tls = bool(op.get("tls"))
        return (HOSTS[op["h"]], PORTS[op["p"]], tls, op.get("tlscfg", 0) if tls else 0, proxy[0] if proxy else None, proxy[1:] if proxy else None)

    def on_request(self, peer: Peer, head: bytes) -> None:
        m = re.match(rb"(?:GET|POST|HEAD) (?:https?://[^/ ]+)?/r(\d+) HTTP/1\.1", head)
        n = int(m.group(1)) if m else -1
        op = self.current
        peer.requests.append(n)
        if getattr(peer, "pending_rest", None):
            rest, peer.pending_rest = peer.pending_rest, None
            peer.send(rest)  # a server finishes the response it was sending before it answers the next request
        if peer.tainted:
            self.violations.append(("tainted-connection-reused", f"request r{n} was sent on connection {peer.idx} which is unusable: {peer.tainted}"))
        if op is not None and n == op["n"]:
            want = self.endpoint_key(op)
            if peer.key != want:
                self.violations.append(("wrong-endpoint-reuse", f"request r{n} for {want} was sent on connection {peer.idx} opened for {peer.key}"))
            # proxy identity visible on the wire
            proxy = PROXIES[op.get("proxy", 0)]
        if op is None or n != op["n"]:
            return
        ps = op["peer"]
        if b"expect: 100-continue" in head.lower():
            # the server answers with the final response straight away and never reads the announced body: unless the
            # client sends the body anyway, the connection cannot carry another request (its bytes would be read as that body)
            peer.tainted = peer.tainted or f"request r{n} announced a body with Expect: 100-continue, got a final response, body unsent"
        body = f"conn{peer.idx}-r{n}-".encode() + bytes((n * 31 + i) % 251 for i in range(ps.get("size", 10)))
        op["_expect_body"] = body
        status = ps.get("status", 200)
        hdr = f"HTTP/1.1 {status} X\r\nX-Exchange: {n}\r\n"
        if ps.get("upgrade_hdrs") == "426-ws":
            # an ordinary (non-101) response that happens to carry upgrade headers: nothing was switched
            hdr += "Connection: Upgrade\r\nUpgrade: websocket\r\n"
        elif ps.get("upgrade_hdrs") == "101-h2c":
            # the peer switched this connection to another protocol: HTTP/1.1 is over on it
            hdr = f"HTTP/1.1 101 Switching\r\nX-Exchange: {n}\r\nConnection: Upgrade\r\nUpgrade: h2c\r\n"
            peer.tainted = peer.tainted or f"response r{n} was 101 Switching Protocols (h2c)"
            op["_expect_body"] = b""
            peer.send((hdr + "\r\n").encode())
            return
        if ps.get("announce_close") == "header":
            hdr += "Connection: close\r\n"
            peer.tainted = peer.tainted or f"response r{n} announced Connection: close"
        elif ps.get("announce_close") == "http10":
            hdr = hdr.replace("HTTP/1.1", "HTTP/1.0", 1)  # HTTP/1.0 response without keep-alive: not persistent
            peer.tainted = peer.tainted or f"response r{n} was HTTP/1.0 without keep-alive"
        fr = ps.get("framing", "cl")
        if status in (204, 304) or head.startswith(b"HEAD "):
            # no body on the wire whatever the framing headers say (RFC 9112 6.3): the next response follows immediately
            op["_expect_body"] = b""
            framing_hdr = {"cl": f"Content-Length: {len(body)}\r\n", "chunked": "Transfer-Encoding: chunked\r\n", "chunked1": "Transfer-Encoding: chunked\r\n", "eof": ""}[fr]
            if status == 204:
                framing_hdr = "" if fr != "cl" else framing_hdr
            data = (hdr + framing_hdr + "\r\n").encode()
            fr = "none"
        elif fr == "cl":
            data = (hdr + f"Content-Length: {len(body)}\r\n\r\n").encode() + body
        elif fr == "chunked1":
            # nchunks small chunks in one segment: few bytes, many chunk boundaries (the reader pauses on their number too)
            data = (hdr + "Transfer-Encoding: chunked\r\n\r\n").encode()
            nch = max(1, min(ps.get("nchunks", 5), len(body)))
            step = len(body) // nch
            for k in range(nch):
                part = body[k * step:(k + 1) * step] if k < nch - 1 else body[k * step:]
                data += f"{len(part):x}\r\n".encode() + part + b"\r\n"
            data += b"0\r\n\r\n"
        elif fr == "chunked":
            half = len(body) // 2
            data = (hdr + "Transfer-Encoding: chunked\r\n\r\n").encode()
            for part in (body[:half], body[half:]):
                if part:
                    data += f"{len(part):x}\r\n".encode() + part + b"\r\n"
            data += b"0\r\n\r\n"
        else:
            data = (hdr + "\r\n").encode() + body
            peer.tainted = "EOF-delimited response"
        if ps.get("bad_coding") and fr == "cl" and len(body) >= 8:
            # a body that does not decode under its declared content-coding, sent in two instalments: the first now, the rest
            # when the connection is next used (or once this exchange is over).  Until the rest is out the response is
            # incomplete on the wire: the connection cannot carry another request.
            data = (hdr + f"Content-Encoding: gzip\r\nContent-Length: {len(body)}\r\n\r\n").encode() + body[: len(body) // 2]
            peer.pending_rest = body[len(body) // 2:]
            peer.tainted = peer.tainted or f"body of response r{n} not completely sent when the exchange failed (content-coding error)"
            op["_expect_body"] = None
            peer.send(data)

            def later_rest() -> None:
                if getattr(peer, "pending_rest", None) and self.current is None and not peer.transport.closing:
                    rest, peer.pending_rest = peer.pending_rest, None
                    peer.send(rest)

            if ps.get("rest_when", "after") == "after":
                op["_later"] = (peer, later_rest)
            # else: the rest is only sent when this connection is used again (a slow server still busy with this response)
            return
        trunc = ps.get("truncate")
        if trunc is not None:
            data = data[: max(1, len(data) - 1 - trunc)]
            peer.tainted = "response truncated by the peer"
        surplus = self.surplus_bytes(ps.get("surplus"), peer, n)
        if surplus and ps.get("surplus_when", "same") == "same":
            data += surplus
            peer.tainted = peer.tainted or f"surplus bytes after response r{n}"
            surplus = b""
        interim = ps.get("interim")
        if interim and not head.startswith(b"HEAD "):
            # interim responses (100 Continue, 102 Processing, 103 Early Hints) come before the final one, in the same segment
            # or some time ahead of it: they are not the answer
            pre = b"".join(f"HTTP/1.1 {c} Interim\r\nX-Interim: {c}\r\n\r\n".encode() for c in interim["codes"])
            if interim["when"] == "same":
                data = pre + data
            else:
                peer.send(pre)
                final = data
                self.loop.call_later(interim["when"], lambda: (not peer.transport.closing) and peer.send(final))
                data = b""
        if data:
            peer.send(data)
        if surplus:
            def later() -> None:
                # only while no other request may already have been handed to this connection (sound domain)
                if self.current is None and not peer.transport.closing:
                    peer.tainted = peer.tainted or f"surplus bytes after response r{n}"
                    peer.send(surplus)

            op["_later"] = (peer, later)
        if fr == "eof" or trunc is not None or ps.get("close_after"):
            peer.tainted = peer.tainted or "closed by the peer"
            self.loop.call_soon(peer.close)

    def surplus_bytes(self, kind, peer: Peer, n: int) -> bytes:
        if not kind:
            return b""
        if kind == "garbage":
            return b"\x00\x01garbage"
        stale = f"STALE-after-r{n}-conn{peer.idx}".encode()
        full = b"HTTP/1.1 200 OK\r\nX-Exchange: stale\r\nContent-Length: %d\r\n\r\n" % len(stale) + stale
        if kind == "response":
            return full
        if kind == "two_responses":
            return full + full
        return full[: len(full) // 2]


def execute(case: dict) -> dict:
    import aiohttp
    import aiohttp.connector as connector_mod

    loop = new_loop()
    loop.max_iters = 300000  # cases are small: a busy loop is reported after 3e5 iterations, not 3e6
    stats = {"misbehaviour": 0, "same_key_pairs": 0, "requests": 0, "reused": 0, "other_key_same_host": 0}
    saved_mono = connector_mod.monotonic
    connector_mod.monotonic = loop.time  # keep-alive age under virtual time
    try:
        world = World(loop, case)
        MC = memnet.make_connector_class()

        def pf(req, idx):
            op = world.current
            key = world.endpoint_key(op) if op is not None else ("?",)
            peer = Peer(world, idx, key)
            world.peers.append(peer)
            return peer, memnet.Plan(), memnet.Plan(case.get("s2c") or [])

        class Conn(MC):  # type: ignore[misc, valid-type]
            async def _create_connection(self, req, traces, timeout):
                if req.proxy:
                    self._update_proxy_auth_header_and_build_proxy_req(req)
                return await super()._create_connection(req, traces, timeout)

        outcomes: list = []

        async def main():
            conn = Conn(pf, log=world.log, limit=case.get("limit", 100), keepalive_timeout=15.0)
            skw = {"read_bufsize": case["read_bufsize"]} if case.get("read_bufsize") else {}
            # a read timeout that no scripted peer ever exceeds (they answer at once, interim responses lag 0.5 s at most)
            session = aiohttp.ClientSession(connector=conn, timeout=aiohttp.ClientTimeout(total=50, sock_read=case.get("sock_read")), **skw)
            deferred: list = []

            async def read_deferred():
                # bodies the application left unread while it went on with other requests: read now, each must
                # still be its own (the connection may have served others meanwhile)
                for dres, dresp in deferred:
                    try:
                        dres["body"] = await dresp.read()
                    except Exception as e:  # noqa: BLE001
                        dres["read_error"] = type(e).__name__
                        dres["read_timeout"] = isinstance(e, asyncio.TimeoutError)
                    dresp.release()
                deferred.clear()
                await arrived()

            async def arrived():
                # everything the peers have written must have ARRIVED before the next request is issued: bytes still in
                # flight at hand-off time cannot be told from an answer by any client
                for p in world.peers:
                    while p.transport is not None and p.transport.out and not p.transport.peer.closed and not p.transport.peer.reading_paused:
                        await asyncio.sleep(0)
                for _ in range(3):
                    await asyncio.sleep(0)

            try:
                n = 0
                seen_keys: dict = {}
                for op in case["ops"]:
                    kind = op["op"]
                    if kind == "tick":
                        await asyncio.sleep(op["dt"])
                        if op["dt"] >= 1.0:
                            await read_deferred()
                        continue
                    if kind == "unsolicited":
                        idle = [p for p in world.peers if p.transport is not None and not p.transport.closing and not p.busy]
                        if not idle:
                            continue
                        p = idle[op["conn"] % len(idle)]
                        p.tainted = p.tainted or "unsolicited bytes while idle"
                        p.send(world.surplus_bytes(op["kind"], p, -1))
                        stats["misbehaviour"] += 1
                        # the bytes must have ARRIVED before the next request is issued: bytes still in flight at
                        # hand-off time cannot be told from an answer by any client
                        while p.transport.out and not p.transport.peer.closed and not p.transport.peer.reading_paused:
                            await asyncio.sleep(0)
                        for _ in range(op.get("settle", 3)):
                            await asyncio.sleep(0)
                        continue
                    # a request
                    n += 1
                    op = dict(op, n=n)
                    world.current = op
                    stats["requests"] += 1
                    ps = op["peer"]
                    if ps.get("surplus") or ps.get("truncate") is not None or ps.get("framing") == "eof" or ps.get("close_after") or op["read"] != "full":
                        stats["misbehaviour"] += 1
                    k = world.endpoint_key(op)
                    if k in seen_keys:
                        stats["same_key_pairs"] += 1
                    if any(o[:2] == k[:2] and o != k for o in seen_keys):
                        stats["other_key_same_host"] += 1
                    seen_keys[k] = True
                    scheme = "https" if op.get("tls") else "http"
                    url = f"{scheme}://{HOSTS[op['h']]}:{PORTS[op['p']]}/r{n}"
                    kw = {}
                    proxy = PROXIES[op.get("proxy", 0)]
                    if proxy:
                        kw["proxy"] = proxy[0].replace("http://", f"http://{proxy[1]}:pw-{proxy[1]}@")
                        kw["proxy_headers"] = {"X-Tenant": proxy[2]}
                    if op.get("tls") and op.get("tlscfg", 0):
                        if not TLS_SETTINGS:
                            TLS_SETTINGS.extend(_tls_settings())
                        kw.update(TLS_SETTINGS[op["tlscfg"]])
                    before = len(world.peers)
                    res: dict = {"n": n}
                    try:
                        if op.get("expect"):
                            resp = await session.post(url, data=b"0123456789", expect100=True, **kw)
                        elif op.get("head"):
                            resp = await session.head(url, **kw)
                        else:
                            resp = await session.get(url, **kw)
                        res["status"] = resp.status
                        res["xch"] = resp.headers.get("X-Exchange")
                        try:
                            if op["read"] == "deferred":
                                deferred.append((res, resp))
                            elif op["read"] == "full":
                                res["body"] = await resp.read()
                            elif op["read"] == "partial":
                                res["body_prefix"] = await resp.content.read(5)
                            elif op["read"] == "stream":
                                got = bytearray()
                                while True:
                                    chunk = await resp.content.read(64)
                                    if not chunk:
                                        break
                                    got.extend(chunk)
                                res["body"] = bytes(got)
                        except Exception as e:  # noqa: BLE001
                            res["read_error"] = type(e).__name__
                            res["read_timeout"] = isinstance(e, asyncio.TimeoutError)
                        if op["read"] == "deferred":
                            pass
                        elif op.get("end", "release") == "close":
                            resp.close()
                        else:
                            resp.release()
                        if op["read"] not in ("full", "stream", "deferred") or "read_error" in res:
                            # the application abandoned the exchange before the whole response had arrived:
                            # that connection is done for (if everything had arrived already it is clean)
                            for p in world.peers:
                                if p.requests and p.requests[-1] == n and p.transport is not None and p.transport.out:
                                    p.tainted = p.tainted or f"response r{n} abandoned by the application before it had fully arrived"
                    except (aiohttp.ClientError, asyncio.TimeoutError) as e:
                        res["error"] = "TimeoutError" if isinstance(e, asyncio.TimeoutError) else type(e).__name__
                        res["error_type"] = type(e).__name__
                        for p in world.peers:
                            if p.requests and p.requests[-1] == n:
                                p.tainted = p.tainted or f"exchange r{n} failed with {type(e).__name__}"
                    # surplus that arrived in the very segment that completed the response was there when the
                    # connection was released: such a connection must not even go back into the pool
                    if "error" not in res and op["peer"].get("surplus") and op["peer"].get("surplus_when") == "same" and not case.get("s2c") \
                            and op["read"] == "full":
                        # (a pooled connection whose transport is already closed is never handed out, and one whose protocol
                        # reports should_close is refused at hand-over - the response may have completed, and released the
                        # connection, inside the parser call that then found the surplus: both are harmless)
                        pooled = {id(pr.transport) for q in getattr(conn, "_conns", {}).values() for pr, _t in q if pr.is_connected() and not pr.should_close}
                        for p in world.peers:
                            if p.requests and p.requests[-1] == n and p.transport is not None and id(p.transport.peer) in pooled:
                                raise Violation("tainted-connection-pooled", f"connection {p.idx} went back into the pool although surplus bytes followed response r{n} in the same segment")
                    res["new_conn"] = len(world.peers) > before
                    if not res["new_conn"]:
                        stats["reused"] += 1
                    res["expect_body"] = op.get("_expect_body")
                    outcomes.append((op, res))
                    world.current = None
                    if "_later" in op:
                        lp, fn = op["_later"]
                        for _ in range(op["peer"].get("later_ms", 1)):
                            await asyncio.sleep(0)
                        fn()
                        while lp.transport is not None and lp.transport.out and not lp.transport.peer.closed and not lp.transport.peer.reading_paused:
                            await asyncio.sleep(0)
                    # everything the peers have written must have arrived before the next request is issued
                    for p in world.peers:
                        while p.transport is not None and p.transport.out and not p.transport.peer.closed and not p.transport.peer.reading_paused:
                            await asyncio.sleep(0)
                    for _ in range(op.get("settle", 2)):
                        await asyncio.sleep(0)
                await read_deferred()
            finally:
                await session.close()

        try:
            loop.drive(main(), max_time=5000.0)
        except Quiescent as q:
            raise Violation("history-hangs", f"session blocked for ever: {q}; outcomes so far {[(r['n'], r.get('status'), r.get('error')) for _o, r in outcomes]}")

        for op, res in outcomes:
            n = res["n"]
            if res.get("error") == "TimeoutError":
                # every scripted response is complete (or its connection is closed by the peer): nothing here takes 50 s
                raise Violation("exchange-hangs", f"request r{n} timed out ({res.get('error_type')}) although the peer answered (or closed) at once: {op}")
            if res.get("read_timeout") and not op["peer"].get("bad_coding") and op["peer"].get("truncate") is None:
                raise Violation("exchange-hangs", f"reading the body of r{n} timed out ({res.get('read_error')}) although the peer sent (or closed) at once: {op}")
            if "error" in res:
                continue
            want_status = 101 if op["peer"].get("upgrade_hdrs") == "101-h2c" else op["peer"].get("status", 200)
            if res.get("xch") != str(n) or res.get("status") != want_status:
                raise Violation("foreign-response", f"request r{n} was answered with status={res.get('status')} X-Exchange={res.get('xch')!r}: bytes of another exchange")
            exp = res.get("expect_body")
            if "body" in res and exp is not None:
                ps = op["peer"]
                if ps.get("truncate") is not None:
                    raise Violation("truncated-delivered", f"request r{n}: the peer truncated the response but read() returned {len(res['body'])} bytes without error")
                if res["body"] != exp:
                    raise Violation("foreign-body", f"request r{n}: body {res['body'][:60]!r} != what the peer sent for it {exp[:60]!r}")
            if "body_prefix" in res and exp is not None and not exp.startswith(res["body_prefix"]):
                raise Violation("foreign-body", f"request r{n}: body prefix {res['body_prefix']!r} is not from its own response {exp[:20]!r}")
        if world.violations:
            k, msg = world.violations[0]
            raise Violation(k, msg)
        if loop.exc_contexts:
            ctx = loop.exc_contexts[0]
            e = ctx.get("exception")
            raise Violation(hyp.exc_key(e, "loop-exception") if e else "loop-exception", f"{ctx.get('message')}: {e!r}"[:300])
        return stats
    finally:
        connector_mod.monotonic = saved_mono
        loop.shutdown()


def body(rec: Rec, case: dict) -> None:
    stats = execute(case)
    nt = (stats["same_key_pairs"] >= 1 and stats["misbehaviour"] >= 1) or stats["other_key_same_host"] >= 1
    labels = []
    if stats["other_key_same_host"]:
        labels.append("other-key-same-host")
    if stats["reused"]:
        labels.append("reused")
    if stats["misbehaviour"]:
        labels.append("misbehaviour")
    for op in case["ops"]:
        if op["op"] == "req":
            ps = op["peer"]
            if ps.get("surplus"):
                labels.append("surplus:" + ps["surplus"] + ":" + ps.get("surplus_when", "same"))
            if op.get("proxy"):
                labels.append("proxy")
            if op.get("tls") and op.get("tlscfg"):
                labels.append("tls-setting")
            if ps.get("interim"):
                labels.append("interim:" + str(ps["interim"]["when"]))
        elif op["op"] == "unsolicited":
            labels.append("unsolicited")
    rec.case(case, nt, sorted(set(labels)))


# ------------------------------------------------------------------ generators
@st.composite
def cases(draw, narrow: bool):
    nhosts = 1 if narrow is True else 3
    req = st.fixed_dictionaries({
        "op": st.just("req"),
        "h": st.integers(0, nhosts - 1), "p": st.integers(0, 0 if narrow else 1), "tls": st.booleans() if not narrow else st.just(False),
        "proxy": st.sampled_from([0, 0, 0, 1, 2, 3]) if not narrow else st.just(0),
        "tlscfg": st.sampled_from([0, 0, 0, 1, 2, 3, 4, 5, 6, 7]) if not narrow else st.just(0),
        "read": st.sampled_from(["full", "full", "full", "stream", "stream", "partial", "none", "deferred"]),
        "end": st.sampled_from(["release", "release", "close"]),
        "settle": st.integers(0, 4),
        "expect": st.sampled_from([False, False, False, False, True]),
        "head": st.sampled_from([False, False, False, False, True]),
        "peer": st.fixed_dictionaries({
            "framing": st.sampled_from(["cl", "cl", "chunked", "chunked1", "eof"]),
            "status": st.sampled_from([200, 200, 200, 204, 304]),
            "announce_close": st.sampled_from([None, None, None, None, "header", "http10"]),
            "bad_coding": st.sampled_from([False, False, False, False, True]),
            "rest_when": st.sampled_from(["after", "next"]),
            "size": st.sampled_from([0, 1, 5, 10, 300]),
            "nchunks": st.sampled_from([3, 4, 5, 5, 6, 9, 17]),
            "surplus": st.sampled_from([None, None, "garbage", "response", "two_responses", "partial"]),
            "surplus_when": st.sampled_from(["same", "later"]),
            "later_ms": st.integers(0, 3),
            "truncate": st.sampled_from([None, None, None, 0, 3]),
            "close_after": st.sampled_from([False, False, False, True]),
            # ("101-h2c" - a 101 to a protocol aiohttp does not speak - is implemented above but not generated: the suite pins
            # keep-alive after a bare 101, test_keepalive_after_empty_body_status[101]; see DESIGN 6.2)
            "upgrade_hdrs": st.sampled_from([None, None, None, None, None, "426-ws"]),
            "interim": st.sampled_from([None, None, None, None, {"codes": [103], "when": "same"}, {"codes": [102], "when": 0.01}, {"codes": [103, 103], "when": 0.5},
                                        {"codes": [100], "when": 0.01}]),
        }),
    })
    uns = st.fixed_dictionaries({"op": st.just("unsolicited"), "conn": st.integers(0, 3), "kind": st.sampled_from(["response", "two_responses", "partial", "garbage"]),
                                 "settle": st.integers(0, 4)})
    tick = st.fixed_dictionaries({"op": st.just("tick"), "dt": st.sampled_from([0.001, 1.0, 14.0, 16.0])})
    if narrow == "keys":
        # key separation in isolation: one host and port, well-behaved peers, only the key components vary, so nearly
        # every request finds an idle connection of a DIFFERENT key waiting in the pool
        clean = {"framing": "cl", "status": 200, "announce_close": None, "bad_coding": False, "rest_when": "after", "size": 10,
                 "surplus": None, "surplus_when": "same", "later_ms": 0, "truncate": None, "close_after": False}
        kreq = st.fixed_dictionaries({
            "op": st.just("req"), "h": st.just(0), "p": st.integers(0, 1), "tls": st.sampled_from([True, True, True, False]),
            "proxy": st.sampled_from([0, 0, 1, 2, 3]), "tlscfg": st.integers(0, 7),
            "read": st.just("full"), "end": st.just("release"), "settle": st.integers(0, 2),
            "expect": st.just(False), "head": st.just(False), "peer": st.just(clean),
        })
        # ... and the clock moves, so that the connector's periodic sweep of idle connections (every keepalive_timeout = 15 s)
        # runs while connections of several keys are idle
        ktick = st.fixed_dictionaries({"op": st.just("tick"), "dt": st.sampled_from([1.0, 4.0, 5.0, 10.0, 14.0, 15.0])})
        ops = draw(st.lists(st.one_of(kreq, kreq, ktick), min_size=2, max_size=8))
        return {"ops": [dict(o, peer=dict(o["peer"])) if o["op"] == "req" else o for o in ops], "s2c": []}
    ops = draw(st.lists(st.one_of(req, req, req, uns, tick), min_size=2, max_size=8))
    for o in ops:
        if o["op"] == "req":
            ps = o["peer"]
            if ps["framing"] == "eof" or ps["truncate"] is not None:
                ps["surplus"] = None  # bytes after an EOF-delimited / truncated body are body bytes, not surplus
            if ps["framing"] == "eof":
                ps["truncate"] = None  # a shortened EOF-delimited body cannot be told from a complete one
            if o.get("expect"):
                o["head"] = False
            if ps["framing"] in ("chunked", "chunked1") and ps.get("announce_close") == "http10":
                ps["announce_close"] = None  # no chunked coding in HTTP/1.0
            if ps.get("upgrade_hdrs") == "101-h2c":
                for k_ in ("surplus", "truncate", "interim"):
                    ps[k_] = None
                ps["close_after"] = False
                ps["bad_coding"] = False
                ps["status"] = 200
                if ps["framing"] == "eof":
                    ps["framing"] = "cl"
                o["head"] = False
                o["expect"] = False
            if ps.get("upgrade_hdrs") == "426-ws":
                ps["status"] = 200  # a 200 with upgrade headers
            if o.get("expect"):
                ps["interim"] = None  # (a real 100 Continue would make the client send the body the scripted peer does not read)
            if ps.get("interim") and (ps["truncate"] is not None or ps["framing"] == "eof" or ps["close_after"] or ps["surplus"] or ps.get("bad_coding")
                                      or ps["status"] in (204, 304)):
                ps["interim"] = None
            if ps.get("bad_coding"):
                ps["surplus"] = None
                ps["truncate"] = None
                ps["status"] = 200
                ps["close_after"] = False
                o["head"] = False
                o["expect"] = False
            if o.get("head") or ps["status"] in (204, 304):
                ps["truncate"] = None  # nothing to truncate: these responses end with the header block
                if ps["framing"] == "eof":
                    ps["framing"] = "cl"
    return {"ops": ops, "s2c": draw(st.sampled_from([[], [], [1], [7, 3]])), "read_bufsize": draw(st.sampled_from([None, None, 64, 16])),
            "sock_read": draw(st.sampled_from([None, None, 2.0]))}


def unit_hyp(rec: Rec, n: int, offset: int, narrow) -> None:
    hyp.run(rec, cases(narrow), body, n, seed_offset=offset, max_root_causes=5)


def units(tier: str, seed: int) -> list[Unit]:
    n = 400 if tier == "quick" else 6000
    us = [Unit(f"narrow{i}", unit_hyp, {"n": n, "offset": i, "narrow": True}) for i in range(10)]
    us += [Unit(f"lattice{i}", unit_hyp, {"n": n, "offset": 30 + i, "narrow": False}) for i in range(6)]
    us += [Unit(f"keys{i}", unit_hyp, {"n": n, "offset": 60 + i, "narrow": "keys"}) for i in range(5)]
    return us


def replay(rec: Rec, case: dict) -> None:
    execute(case)
