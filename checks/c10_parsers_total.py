"""C10 Parsers are total and enforce their configured limits."""
from __future__ import annotations

import asyncio
import os
import subprocess
import sys
import tempfile

from hypothesis import strategies as st

from vlib import hyp, refhttp
from vlib.parsedrive import drive
from vlib.runner import VERIF, Rec, Unit, Violation

PROPERTY = "C10"
LEVEL = "exploration"
RULE = (
    "totality: byte streams from structure-aware mutation of grammar output (named mutation classes, raw byte "
    "mutations, hostile request targets, mutated responses) fed whole and in random cuts to the request and response "
    "parsers: feed_data/feed_eof must return or raise HttpProcessingError, nothing else; thorough adds Atheris "
    "coverage-guided campaigns over (parser kind, limits, segmentation, bytes).  limits: every syntactic position "
    "(start line, header, header count, chunk-size line, trailer, trailer count) sized limit-1/limit/limit+1 under "
    "equal and unequal limit configurations, whole / every single cut / bytewise: over-limit must raise LineTooLong or "
    "'Too many headers/trailers', at/below must be accepted, retained parser buffers stay within the limits plus one "
    "segment.  work: deterministic line-event counts for pumped input families at n, 2n, 4n must grow <= 2.4x per "
    "doubling.  Non-trivial = input has a complete first line (reaches the header parser) or is within +-1 of a limit."
)
ASSUMPTIONS = [
    "line length is measured as aiohttp documents it: the line without its CRLF; a header 'field' is its whole line",
    "header count between max_headers-2 and max_headers is DON'T-CARE (aiohttp counts the start line and the blank line)",
    "work is counted as Python line events inside aiohttp/http_parser.py and aiohttp/streams.py (no wall clock); C-level "
    "copying (bytes concatenation, find) is not visible to this counter",
]


def classify_exc(out) -> None:
    if out.unrenderable:
        raise Violation("error-not-renderable-as-400", f"the protocol error cannot be encoded into the 400 response the server builds from it: {out.unrenderable}"[:300])
    e = out.other_exc
    if e is not None:
        if out.unusable_url:
            raise Violation(f"unusable-url/{type(e).__name__}", f"parser accepted the request but its URL raises {e!r} when read (the request factory dies on it)"[:300])
        raise Violation(hyp.exc_key(e, "non-http-exception"), f"{type(e).__name__}: {e!r}"[:300])


def check_total(rec: Rec, case: dict) -> None:
    stream = case["stream"]
    kind = case["kind"]
    pk = "request" if kind == "request" else "response"
    kw = dict(limits=case.get("limits") or {}, strict_response=(kind == "response-strict"), read_limit=case.get("read_limit", 2 ** 16))
    nt = b"\n" in stream
    rec.case({"k": kind, "s": stream, "l": case.get("limits")}, nt, [case.get("cls", "?"), kind])
    n = len(stream)
    for cuts in [()] + [tuple(sorted({c % n for c in cs} - {0})) for cs in case.get("cuts", []) if n > 1]:
        out = drive(pk, stream, cuts, **kw)
        try:
            classify_exc(out)
        except Violation as v:
            raise Violation(v.key, f"{kind} cuts={cuts} stream={stream[:120]!r}: {v.msg}")


# ------------------------------------------------------------------ generators
HOSTILE_TARGETS = [
    "http://[::1", "http://[::1]:99999999/", "http://a:b/", "http://a:99999999/", "http://\xff/", "http://[v1.x]/", "//", "///", "/\x00",
    "http://", "http:///x", "http://a@b@c/", "http://[::1]x/", "http://[:::1]/", "http://a:-1/", "http://a: 80/", "?", "#", "a", "http:a",
    "http://\udcff/", "http://a\\b/", "http://%zz/", "/%zz", "/%", "http://[fe80::1%25eth0]/", "http://[fe80::1%eth0]/", "*", "a:80", "[::1]:80",
    "http://a:65536/", "http://a:0x50/", "http://[", "http://]", "https://:443", "http://a..b/", "http://.a/", "http://xn--/", "http://a_b/",
    "\udcff", "a\udc80", "\udcff/x", "x\udced\udca0\udc80", "\udcc3(", "http:\udcff", "*\udcff", "\udcff:80", "http://℀/", "http://\xe9.com/", "http://a%00b/", "http://0x7f.1/", "ws://a/", "file:///etc/passwd", "http://a:80:80/",
]


@st.composite
def hostile(draw):
    method = draw(st.sampled_from(["GET", "OPTIONS", "CONNECT", "POST"]))
    target = draw(st.one_of(
        st.sampled_from(HOSTILE_TARGETS),
        st.text(alphabet=st.sampled_from(list("[]:@/?#%.\\ah0-~_1\xff\x80") + ["\udcff", "\udc80", "\udcc3"]), min_size=1, max_size=12),
        st.text(alphabet=st.sampled_from("[]:@/%.a0"), min_size=1, max_size=10).map(lambda t: "http://" + t),
    ))
    host = draw(st.sampled_from(["a", "[::1", "a:b", "", "\xff", "a:99999999", "[::1]:x"]))
    extra = draw(st.sampled_from(["", "", "", "Content-Length: " + "9" * 5000 + "\r\n", "Content-Length: " + "0" * 4400 + "5\r\n", "Content-Length: 99999999999999999999999\r\n"]))
    data = f"{method} {target} HTTP/1.1\r\nHost: {host}\r\n{extra}\r\n".encode("utf-8", "surrogateescape")
    return {"kind": "request", "stream": data, "cls": "hostile_target", "cuts": []}


@st.composite
def total_cases(draw, mode: str):
    cuts = draw(st.lists(st.lists(st.integers(1, 400), min_size=1, max_size=4), max_size=2))
    limits = draw(st.sampled_from([{}, {}, {"max_line_size": 40, "max_field_size": 40, "max_headers": 6}, {"max_line_size": 30, "max_field_size": 60, "max_headers": 8}]))
    if mode == "mutated":
        m = draw(refhttp.mutated_pipelines(max_n=2, max_body=40))
        return {"kind": "request", "stream": m["bytes"], "cls": m["cls"], "cuts": cuts, "limits": limits}
    if mode == "raw":
        m = draw(refhttp.raw_mutations(max_n=2))
        return {"kind": "request", "stream": m["bytes"], "cls": "raw", "cuts": cuts, "limits": limits}
    if mode == "hostile":
        c = draw(hostile())
        c["cuts"] = cuts
        return c
    if mode == "response":
        strict = draw(st.booleans())
        rs = draw(refhttp.response_streams(lf_endings=draw(st.booleans())))
        s = bytearray(rs["bytes"])
        for _ in range(draw(st.integers(0, 3))):
            if not s:
                break
            i = draw(st.integers(0, len(s) - 1))
            op = draw(st.sampled_from(["flip", "ins", "del", "set"]))
            if op == "flip":
                s[i] ^= 1 << draw(st.integers(0, 7))
            elif op == "ins":
                s[i:i] = draw(st.sampled_from([b"\r", b"\n", b" ", b":", b"\x00", b"\xff", b"9", b"-", b"+", b"chunked"]))
            elif op == "del":
                del s[i:i + draw(st.integers(1, 4))]
            else:
                s[i] = draw(st.sampled_from(list(b"\r\n :;0aF\x00\xff")))
        return {"kind": "response-strict" if strict else "response-lax", "stream": bytes(s), "cls": "response-mut", "cuts": cuts, "limits": limits}
    # random bytes over a protocol-ish alphabet
    data = draw(st.binary(max_size=80) | st.lists(st.sampled_from([b"GET", b"HTTP/1.1", b" ", b"\r\n", b"\n", b"\r", b":", b"/", b"Host", b"0", b"5", b"a",
                                                                     b"Transfer-Encoding: chunked", b"Content-Length: 3", b";", b"\x00", b"\xff"]), max_size=24).map(b"".join))
    return {"kind": draw(st.sampled_from(["request", "response-lax", "response-strict"])), "stream": data, "cls": "random", "cuts": cuts, "limits": limits}


def check_client(rec: Rec, case: dict) -> None:
    """The same hostile response bytes, but through a real ClientSession: whatever the peer sends, the caller gets a response
    or an aiohttp client error (ClientError family, incl. ClientResponseError / ClientPayloadError) - never a raw parser
    exception or anything else."""
    import aiohttp
    from vlib import memnet
    from vlib.detloop import Quiescent, new_loop

    loop = new_loop()
    out: dict = {}
    try:
        asyncio.set_event_loop(loop)
        stream = case["interim"] + case["stream"]
        pieces = []
        prev = 0
        for c in sorted({x % (len(stream) + 1) for x in case["cuts"]} | {len(case["interim"]) if case.get("cut_after_interim") else 0}):
            if 0 < c < len(stream):
                pieces.append(stream[prev:c])
                prev = c
        pieces.append(stream[prev:])

        class Peer(memnet.ScriptPeer):
            def data_received(self, data: bytes) -> None:
                super().data_received(data)
                if b"\r\n\r\n" in self.received and not getattr(self, "answered", False):
                    self.answered = True
                    for i, piece in enumerate(pieces):
                        loop.call_later(0.01 * i, lambda p=piece: (not self.transport.closing) and self.send(p))
                    loop.call_later(0.01 * len(pieces) + 0.01, lambda: (not self.transport.closing) and self.close())

        MC = memnet.make_connector_class()

        async def go():
            conn = MC(lambda req, idx: (Peer(), None, None))
            session = aiohttp.ClientSession(connector=conn, timeout=aiohttp.ClientTimeout(total=30), **case.get("limits_kw", {}))
            try:
                try:
                    resp = await session.get("http://h.test/")
                    out["status"] = resp.status
                    out["body"] = len(await resp.read())
                except BaseException as e:  # noqa: BLE001 - judged below
                    out["exc"] = e
            finally:
                await session.close()

        try:
            loop.drive(go(), max_time=200)
        except Quiescent:
            raise Violation("client-hangs", f"session.get() never returns for {case['stream'][:80]!r}")
        if loop.exc_contexts:
            ctx = loop.exc_contexts[0]
            e = ctx.get("exception")
            raise Violation(hyp.exc_key(e, "client-loop-exception") if e else "client-loop-exception", f"{ctx.get('message')}: {e!r}"[:300])
    finally:
        asyncio.set_event_loop(None)
        loop.shutdown()
    e = out.get("exc")
    if e is not None and not isinstance(e, (aiohttp.ClientError, asyncio.TimeoutError)):
        raise Violation(hyp.exc_key(e, "client-other-exception"), f"session.get() raised {type(e).__module__}.{type(e).__name__}: {e!r} (not a client error) for "
                        f"{(case['interim'] + case['stream'])[:120]!r} in {len(pieces)} piece(s)")
    rec.case(case, bool(case["interim"]) or e is not None, ["client", "client-error" if e is not None else "client-ok"] + (["interim"] if case["interim"] else []))


@st.composite
def client_cases(draw):
    base = draw(total_cases("response"))
    interim = draw(st.sampled_from([b"", b"", b"HTTP/1.1 100 Continue\r\n\r\n", b"HTTP/1.1 103 Early Hints\r\nLink: </a>\r\n\r\n",
                                    b"HTTP/1.1 102 Processing\r\n\r\nHTTP/1.1 103 Early Hints\r\n\r\n"]))
    limits = draw(st.sampled_from([{}, {}, {"max_line_size": 40, "max_field_size": 40}, {"max_headers": 4}]))
    cuts = list(base["cuts"])
    if cuts and isinstance(cuts[0], (list, tuple)):
        cuts = list(cuts[0])
    return {"stream": base["stream"], "interim": interim, "cuts": cuts[:4], "cut_after_interim": draw(st.booleans()), "limits_kw": limits}


def unit_client(rec: Rec, n: int, offset: int) -> None:
    hyp.run(rec, client_cases(), check_client, n, seed_offset=offset)


def unit_total(rec: Rec, n: int, offset: int, mode: str) -> None:
    hyp.run(rec, total_cases(mode), check_total, n, seed_offset=offset)


# ------------------------------------------------------------------ limits
def limit_streams():
    """Deterministic grid: (limits, position, delta) -> (kind, stream, expected)."""
    out = []
    for L, F in ((32, 32), (32, 48), (48, 32), (8190, 8190), (100, 8190), (8190, 100)):
        for H in (8, 11):
            limits = {"max_line_size": L, "max_field_size": F, "max_headers": H}
            for delta in (-1, 0, 1):
                def pad(prefix: str, total: int, ch: str = "a") -> str:
                    return prefix + ch * max(0, total - len(prefix))

                exp = "limit" if delta > 0 else "ok"
                # request line
                out.append((limits, "request_line", delta, "request", (pad("GET /", L + delta - 9) + " HTTP/1.1\r\nHost: a\r\n\r\n").encode(), exp))
                # second request line in the same stream
                out.append((limits, "second_request_line", delta, "request",
                            b"GET /f HTTP/1.1\r\nHost: a\r\n\r\n" + (pad("GET /", L + delta - 9) + " HTTP/1.1\r\nHost: a\r\n\r\n").encode(), exp))
                # header (first / later)
                out.append((limits, "header", delta, "request", ("GET / HTTP/1.1\r\n" + pad("X-P: ", F + delta) + "\r\nHost: a\r\n\r\n").encode(), exp))
                out.append((limits, "later_header", delta, "request", ("GET / HTTP/1.1\r\nHost: a\r\nX-Q: 1\r\n" + pad("X-P: ", F + delta) + "\r\n\r\n").encode(), exp))
                # header count: N fields > max_headers must be rejected; N <= max_headers - 2 accepted
                for nf, e in ((H + 1, "limit"), (H - 2, "ok")):
                    hs = "".join(f"X-{i}: v\r\n" for i in range(nf - 1))
                    out.append((limits, f"header_count={nf}", 0, "request", ("GET / HTTP/1.1\r\nHost: a\r\n" + hs + "\r\n").encode(), e))
                # a header block that is just within the count limit, on a chunked message without trailers: the limit on
                # fields covers headers and trailers together, but a message whose headers pass must be completable
                if delta == 0:
                    hs2 = "".join(f"X-{i}: v\r\n" for i in range(H - 2 - 2))
                    out.append((limits, "full_header_block_chunked", 0, "request",
                                ("POST / HTTP/1.1\r\nHost: a\r\nTransfer-Encoding: chunked\r\n" + hs2 + "\r\n3\r\nabc\r\n0\r\n\r\n").encode(), "ok"))
                # chunk-size line (extension padding) and trailer
                base = "POST / HTTP/1.1\r\nHost: a\r\nTransfer-Encoding: chunked\r\n\r\n"
                out.append((limits, "chunk_size_line", delta, "request", (base + pad("3;x=", L + delta) + "\r\nabc\r\n0\r\n\r\n").encode(), exp))
                out.append((limits, "trailer", delta, "request", (base + "3\r\nabc\r\n0\r\n" + pad("X-T: ", F + delta) + "\r\n\r\n").encode(), exp))
                # trailers count: headers+trailers fields > max_headers must be rejected
                out.append((limits, "trailer_count", 1, "request", (base + "0\r\n" + "".join(f"T{i}: v\r\n" for i in range(H)) + "\r\n").encode(), "limit"))
                if delta > 0:
                    # never terminated: the limit must fire while the line is still incomplete (enforced while reading, not at the terminator)
                    out.append((limits, "unterminated_request_line", delta, "request", pad("GET /", 3 * L + 50).encode(), "limit"))
                    out.append((limits, "unterminated_header", delta, "request", ("GET / HTTP/1.1\r\nHost: a\r\n" + pad("X-P: ", 3 * F + 50)).encode(), "limit"))
                    out.append((limits, "unterminated_header_name", delta, "request", ("GET / HTTP/1.1\r\nHost: a\r\n" + pad("X", 3 * F + 50, "b")).encode(), "limit"))
                    out.append((limits, "unterminated_trailer", delta, "request", (base + "3\r\nabc\r\n0\r\n" + pad("X-T: ", 3 * F + 50)).encode(), "limit"))
                    out.append((limits, "unterminated_chunk_size", delta, "request", (base + pad("3;x=", 3 * L + 50)).encode(), "limit"))
                    for rk in ("response-lax", "response-strict"):
                        out.append((limits, "unterminated_status_line", delta, rk, pad("HTTP/1.1 200 ", 3 * L + 50, "r").encode(), "limit"))
                        out.append((limits, "unterminated_resp_header", delta, rk, ("HTTP/1.1 200 OK\r\n" + pad("X-P: ", 3 * F + 50)).encode(), "limit"))
                # obsolete line folding (lax response parser only): the limit applies to the whole folded field
                if delta != 0 and F >= 48:
                    for m in (1, 2, 3):
                        total = F + (12 if delta > 0 else -12)
                        part = total // (m + 1)
                        first = "X-P: " + "a" * (total - m * part)
                        conts = "".join(" " + "b" * (part - 1) + "\r\n" for _ in range(m))
                        out.append((limits, f"folded_header_{m}", delta, "response-lax", ("HTTP/1.1 200 OK\r\n" + first + "\r\n" + conts + "Content-Length: 0\r\n\r\n").encode(), exp))
                # response status line / header
                for rk in ("response-lax", "response-strict"):
                    out.append((limits, "status_line", delta, rk, (pad("HTTP/1.1 200 ", L + delta, "r") + "\r\nContent-Length: 0\r\n\r\n").encode(), exp))
                    out.append((limits, "resp_header", delta, rk, ("HTTP/1.1 200 OK\r\n" + pad("X-P: ", F + delta) + "\r\nContent-Length: 0\r\n\r\n").encode(), exp))
    return out


def unit_limits(rec: Rec, shard: int, nshards: int, full_cuts: bool) -> None:
    grid = limit_streams()
    for idx, (limits, pos, delta, kind, stream, exp) in enumerate(grid):
        if idx % nshards != shard:
            continue
        pk = "request" if kind == "request" else "response"
        n = len(stream)
        big = n > 400
        if big and not full_cuts:
            cutsets = [(), (n // 2,), (n - 3,), tuple(range(1, n, 997))]
        elif big:
            cutsets = [()] + [(i,) for i in range(1, n, 37)] + [(n - k,) for k in range(1, 12)] + [tuple(range(1, n, 101))]
        else:
            cutsets = [()] + [(i,) for i in range(1, n)] + [tuple(range(1, n))]
        if pos.startswith("unterminated"):
            # the limit may fire on the read after the one that crossed it: always deliver in at least two reads
            cutsets = [tuple(sorted(set(c) | {n - 1})) for c in cutsets] + [(n // 2, n - 1)]
        lim_bound = max(limits["max_line_size"], limits["max_field_size"]) + 2
        for cuts in cutsets:
            o = drive(pk, stream, cuts, limits=limits, strict_response=(kind == "response-strict"), track_retained=True)
            case = {"limits": limits, "pos": pos, "delta": delta, "kind": kind, "stream": stream if n < 300 else {"len": n, "head": stream[:60]}, "cuts": list(cuts)[:6]}
            rec.case(case, True, [f"limit/{pos.split('=')[0]}", kind])
            if o.other_exc is not None:
                rec.fail(hyp.exc_key(o.other_exc, "non-http-exception"), f"{pos} {limits} cuts={cuts[:4]}: {o.other_exc!r}", case)
                continue
            if exp == "limit" and not (o.error is not None and o.limit):
                rec.fail(f"limit-not-enforced/{pos.split('=')[0]}", f"{kind} {limits} {pos} delta={delta:+d} cuts={cuts[:4]}: expected a size-limit error, got error={o.error} msgs={len(o.messages)}", case)
            elif exp == "ok" and o.error is not None:
                rec.fail(f"limit-false-reject/{pos.split('=')[0]}", f"{kind} {limits} {pos} delta={delta:+d} cuts={cuts[:4]}: rejected with {o.error}: {o.error_msg[:80]}", case)
            seg = max((b - a for a, b in zip((0,) + tuple(cuts), tuple(cuts) + (n,))), default=n)
            bound = lim_bound * (limits["max_headers"] + 1) + seg
            if o.error is None and o.retained_max > bound:
                rec.fail("retained-over-bound", f"{kind} {limits} {pos}: parser retained {o.retained_max} bytes > {bound}", case)
    rec.exhaustive = True


# ------------------------------------------------------------------ work
def count_lines(fn) -> int:
    """Number of Python line events executed inside the parser/stream modules while fn() runs."""
    counter = [0]
    files = ("/aiohttp/http_parser.py", "/aiohttp/streams.py")

    def tracer(frame, event, arg):
        if not frame.f_code.co_filename.endswith(files):
            return None

        def local(frame, event, arg):
            if event == "line":
                counter[0] += 1
            return local

        return local

    old = sys.gettrace()
    sys.settrace(tracer)
    try:
        fn()
    finally:
        sys.settrace(old)
    return counter[0]


def work_families():
    def tiny_chunks(n):
        s = b"POST / HTTP/1.1\r\nHost: a\r\nTransfer-Encoding: chunked\r\n\r\n" + b"1\r\nx\r\n" * n + b"0\r\n\r\n"
        return lambda: drive("request", s, ())

    def tiny_chunks_bytewise(n):
        s = b"POST / HTTP/1.1\r\nHost: a\r\nTransfer-Encoding: chunked\r\n\r\n" + b"1\r\nx\r\n" * n + b"0\r\n\r\n"
        return lambda: drive("request", s, tuple(range(1, len(s))))

    def pipelined(n):
        s = b"GET / HTTP/1.1\r\nHost: a\r\n\r\n" * n
        return lambda: drive("request", s, ())

    def many_headers(n):
        s = b"GET / HTTP/1.1\r\nHost: a\r\n" + b"".join(b"X-%d: v\r\n" % i for i in range(n)) + b"\r\n"
        return lambda: drive("request", s, (), limits={"max_headers": 10 ** 6})

    def body_bytewise(n):
        s = b"POST / HTTP/1.1\r\nHost: a\r\nContent-Length: %d\r\n\r\n" % n + b"b" * n
        return lambda: drive("request", s, tuple(range(1, len(s))))

    def header_bytewise(n):
        s = b"GET / HTTP/1.1\r\nHost: a\r\nX-Long: " + b"v" * n + b"\r\n\r\n"
        return lambda: drive("request", s, tuple(range(1, len(s))), limits={"max_field_size": 10 ** 6, "max_line_size": 10 ** 6})

    def resp_chunks(n):
        s = b"HTTP/1.1 200 OK\r\nTransfer-Encoding: chunked\r\n\r\n" + b"2\r\nxy\r\n" * n + b"0\r\n\r\n"
        return lambda: drive("response", s, tuple(range(7, len(s), 7)))

    def trailers(n):
        s = b"POST / HTTP/1.1\r\nHost: a\r\nTransfer-Encoding: chunked\r\n\r\n0\r\n" + b"".join(b"T%d: v\r\n" % i for i in range(n)) + b"\r\n"
        return lambda: drive("request", s, (), limits={"max_headers": 10 ** 6})

    return {"tiny_chunks": tiny_chunks, "tiny_chunks_bytewise": tiny_chunks_bytewise, "pipelined": pipelined, "many_headers": many_headers,
            "body_bytewise": body_bytewise, "header_bytewise": header_bytewise, "resp_chunks_cut7": resp_chunks, "trailers": trailers}


def unit_work(rec: Rec, base: int) -> None:
    for name, fam in work_families().items():
        counts = [count_lines(fam(base * k)) for k in (1, 2, 4)]
        ratios = [counts[1] / max(1, counts[0]), counts[2] / max(1, counts[1])]
        case = {"family": name, "n": [base, 2 * base, 4 * base], "line_events": counts, "ratios": [round(r, 3) for r in ratios]}
        rec.case(case, True, [f"work/{name}"])
        if max(ratios) > 2.4:
            rec.fail(f"superlinear-work/{name}", f"line events {counts} for n={base},{2*base},{4*base}: growth {ratios}", case)


# ------------------------------------------------------------------ atheris (thorough)
def unit_atheris(rec: Rec, shard: int, runs: int, seeded: bool) -> None:
    deps = os.path.join(VERIF, ".deps")
    target = os.path.join(VERIF, "vlib", "fuzz_http.py")
    corpus = tempfile.mkdtemp(prefix="c10_corpus_")
    crashdir = tempfile.mkdtemp(prefix="c10_crash_")
    try:
        if seeded:
            from hypothesis import given, settings, seed as hseed, HealthCheck

            samples = []

            @settings(max_examples=40, database=None, deadline=None, suppress_health_check=list(HealthCheck))
            @hseed(rec.seed * 1000 + shard)
            @given(refhttp.mutated_pipelines(max_n=2, max_body=30))
            def collect(m):
                samples.append(m["bytes"])

            collect()
            for i, s in enumerate(samples):
                with open(os.path.join(corpus, f"s{i}"), "wb") as f:
                    f.write(b"\x00\x00\x00\x00" + s)
        env = dict(os.environ, PYTHONPATH=os.pathsep.join([os.environ.get("VERIF_REPO", "/repo"), VERIF]), FUZZ_CRASH_DIR=crashdir)
        cmd = [sys.executable, target, corpus, f"-runs={runs}", f"-seed={rec.seed * 100 + shard + 1}", "-max_len=400", "-timeout=20",
               f"-artifact_prefix={crashdir}/", "-print_final_stats=1"]
        r = subprocess.run(cmd, env=env, capture_output=True, text=True, timeout=3600)
        execs = 0
        for line in r.stderr.splitlines():
            if "stat::number_of_executed_units" in line:
                execs = int(line.split(":")[-1])
        if "No module named 'atheris'" in r.stderr:
            rec.extra["atheris"] = "unavailable"
            return
        rec.count(execs)
        rec.extra["atheris_execs"] = rec.extra.get("atheris_execs", 0) + execs
        for fn in sorted(os.listdir(crashdir)):
            if fn.endswith(".json"):
                from vlib import jsonx

                doc = jsonx.loads(open(os.path.join(crashdir, fn)).read())
                rec.fail(doc["key"], doc["msg"], doc["case"])
        if r.returncode not in (0,) and not os.listdir(crashdir):
            rec.extra["atheris_rc"] = r.returncode
            rec.extra["atheris_tail"] = r.stderr[-400:]
    finally:
        import shutil

        shutil.rmtree(corpus, ignore_errors=True)
        shutil.rmtree(crashdir, ignore_errors=True)


def units(tier: str, seed: int) -> list[Unit]:
    n = 250 if tier == "quick" else 12000
    us = []
    off = 0
    for mode, k in (("mutated", 3), ("raw", 3), ("hostile", 2), ("response", 2), ("random", 2)):
        for i in range(k):
            us.append(Unit(f"total-{mode}{i}", unit_total, {"n": n, "offset": off, "mode": mode}))
            off += 1
    ns = 4 if tier == "quick" else 8
    for sh in range(ns):
        us.append(Unit(f"limits{sh}", unit_limits, {"shard": sh, "nshards": ns, "full_cuts": tier != "quick"}))
    us.append(Unit("work", unit_work, {"base": 150 if tier == "quick" else 600}))
    for i in range(3 if tier == "quick" else 6):
        us.append(Unit(f"client{i}", unit_client, {"n": 150 if tier == "quick" else 4000, "offset": 60 + i}))
    if tier == "thorough":
        for sh in range(8):
            us.append(Unit(f"atheris{sh}", unit_atheris, {"shard": sh, "runs": 250000, "seeded": sh >= 4}))
    return us


def replay(rec: Rec, case: dict) -> None:
    if "interim" in case:
        check_client(rec, case)
        return
    if "stream" in case and "kind" in case and "pos" not in case:
        check_total(rec, case)
        return
    if "family" in case:
        fam = work_families()[case["family"]]
        counts = [count_lines(fam(k)) for k in case["n"]]
        ratios = [counts[1] / max(1, counts[0]), counts[2] / max(1, counts[1])]
        if max(ratios) > 2.4:
            raise Violation(f"superlinear-work/{case['family']}", f"line events {counts}: growth {ratios}")
        return
    if "pos" in case:
        # re-run the whole limits grid entry that matches
        for limits, pos, delta, kind, stream, exp in limit_streams():
            if limits == case["limits"] and pos == case["pos"] and delta == case["delta"] and kind == case["kind"]:
                pk = "request" if kind == "request" else "response"
                o = drive(pk, stream, tuple(case.get("cuts") or ()), limits=limits, strict_response=(kind == "response-strict"))
                if exp == "limit" and not (o.error is not None and o.limit):
                    raise Violation(f"limit-not-enforced/{pos.split('=')[0]}", f"error={o.error}")
                if exp == "ok" and o.error is not None:
                    raise Violation(f"limit-false-reject/{pos.split('=')[0]}", f"error={o.error}")
