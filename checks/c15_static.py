"""C15 Static file serving stays inside its root and serves exact bytes."""
from __future__ import annotations

import asyncio
import os
import re
import shutil
import tempfile
import time
from email.utils import formatdate

from hypothesis import strategies as st

from vlib import hyp, memnet, refhttp
from vlib.detloop import Quiescent, new_loop
from vlib.runner import Rec, Unit, Violation

PROPERTY = "C15"
LEVEL = "exploration"
RULE = (
    "confine: request targets from a traversal grammar (.., ., %2e, %2E%2e, %2f, %5c, backslash, //, /C:/, //host/share, "
    "leading/trailing dots, overlong UTF-8, NUL, mixed with valid segments and the names of a fixed tree: files inside, "
    "outside and next to the root with a look-alike name, symlinks in->out (file and directory), in->in, a loop, "
    "dot-files, a FIFO) x follow_symlinks x show_index x GET/HEAD, sent as raw bytes to a real server connection.  "
    "Every file starts with a marker naming its real location.  Oracle: a 200/206 body names only a regular file inside "
    "the root (or, with follow_symlinks, one reached through the tree's symlinks); a listing only with show_index.  "
    "range: file sizes {0,1,2,10,8193} x ALL range specs with start,end,suffix in 0..size+2 (exhaustive) + malformed "
    "specs x If-Range / If-Match / If-None-Match / If-(Un)Modified-Since combinations x GET/HEAD.  Oracle: RFC 9110 "
    "range arithmetic and mutual consistency of status, Content-Range, Content-Length and body bytes.  Non-trivial = "
    "target with an encoded separator/dot or a symlink; range with suffix or end >= size.  distinct = case tuple."
)
ASSUMPTIONS = [
    "DON'T-CARE: 'bytes=-0', multiple ranges, and other malformed specs may be answered 200 (ignored) or 416",
    "executor work runs inline on the deterministic loop; AIOHTTP_NOSENDFILE=1 (fallback path)",
]

SIZES = [0, 1, 2, 10, 8193]


def content_for(marker: str, size: int) -> bytes:
    head = f"FILE:{marker}\n".encode()
    body = (head + bytes((i * 7 + 3) % 251 for i in range(max(0, size - len(head)))))
    return body[:size] if size < len(head) else body


class Tree:
    def __init__(self) -> None:
        self.base = os.path.realpath(tempfile.mkdtemp(prefix="c15_"))
        self.root = os.path.join(self.base, "www")
        self.outside = os.path.join(self.base, "outside")
        self.sibling = os.path.join(self.base, "www-backup")
        for d in (self.root, os.path.join(self.root, "sub"), self.outside, self.sibling, os.path.join(self.root, "dir.d")):
            os.makedirs(d)
        self.files: dict[str, bytes] = {}

        def put(path: str, size: int = 64) -> None:
            data = content_for(os.path.relpath(path, self.base), size)
            with open(path, "wb") as f:
                f.write(data)
            self.files[os.path.realpath(path)] = data

        put(os.path.join(self.root, "in.txt"))
        put(os.path.join(self.root, "sub", "in2.txt"))
        put(os.path.join(self.root, ".hidden"))
        put(os.path.join(self.root, "x.txt"))
        put(os.path.join(self.root, "dir.d", "f"))
        put(os.path.join(self.root, "a b.txt"))
        put(os.path.join(self.outside, "secret.txt"))
        put(os.path.join(self.sibling, "leak.txt"))
        put(os.path.join(self.base, "www.key"))
        for n in SIZES:
            put(os.path.join(self.root, f"r{n}.bin"), n if n >= 0 else 0)
        # pre-compressed siblings: a genuine one, and one that is a symlink to a file outside the root
        import gzip

        def put_gz(path: str) -> None:
            plain = content_for(os.path.relpath(path, self.base), 64)
            with open(path, "wb") as f:
                f.write(gzip.compress(plain, mtime=0))
            self.files[os.path.realpath(path)] = plain  # the oracle compares the decoded body

        put(os.path.join(self.root, "pc.txt"))
        put_gz(os.path.join(self.root, "pc.txt.gz"))
        put(os.path.join(self.root, "sl.txt"))
        put_gz(os.path.join(self.outside, "secret.txt.gz"))
        os.symlink("../outside/secret.txt.gz", os.path.join(self.root, "sl.txt.gz"))
        put(os.path.join(self.root, "dl.txt"))
        os.symlink("../outside", os.path.join(self.root, "dl.txt.gz"))
        os.symlink("../outside/secret.txt", os.path.join(self.root, "link_out_file"))
        os.symlink("../outside", os.path.join(self.root, "link_out_dir"))
        os.symlink("sub/in2.txt", os.path.join(self.root, "link_in"))
        os.symlink("loop", os.path.join(self.root, "loop"))
        os.symlink("../www-backup", os.path.join(self.root, "link_sibling"))
        try:
            os.mkfifo(os.path.join(self.root, "fifo"))
        except OSError:
            pass
        # allowed sets
        self.inside = {p for p in self.files if p.startswith(self.root + os.sep)}
        self.via_links = set(self.inside)
        for dirpath, dirs, files in os.walk(self.root, followlinks=True):
            for fn in files:
                rp = os.path.realpath(os.path.join(dirpath, fn))
                if rp in self.files:
                    self.via_links.add(rp)
            if dirpath.count(os.sep) - self.root.count(os.sep) > 4:
                dirs[:] = []
        self.via_links.add(os.path.realpath(os.path.join(self.outside, "secret.txt")))
        self.via_links.add(os.path.realpath(os.path.join(self.outside, "secret.txt.gz")))

    def cleanup(self) -> None:
        shutil.rmtree(self.base, ignore_errors=True)


_TREE: Tree | None = None


def tree() -> Tree:
    global _TREE
    if _TREE is None:
        _TREE = Tree()
        import atexit

        atexit.register(_TREE.cleanup)
    return _TREE


def fetch(target: bytes, *, method: str = "GET", headers: list | None = None, follow: bool = False, index: bool = False):
    """One raw request to a real server with a static route; returns (Resp list, raw, problem)."""
    from aiohttp import web

    t = tree()
    loop = new_loop()
    try:
        out: dict = {}

        async def go():
            app = web.Application()
            app.router.add_static("/static", t.root, break_symlink_sandbox=follow, show_index=index)
            runner = web.AppRunner(app, access_log=None)
            await runner.setup()
            proto = runner.server()
            peer = memnet.ScriptPeer()
            memnet.connect_protocols(loop, [], peer, proto)
            req = method.encode() + b" " + target + b" HTTP/1.1\r\nHost: h\r\nConnection: close\r\n"
            for k, v in headers or []:
                req += k.encode() + b": " + v.encode() + b"\r\n"
            peer.send(req + b"\r\n")
            for _ in range(3000):
                await asyncio.sleep(0)
                if peer.lost:
                    break
            out["raw"] = bytes(peer.received)
            await runner.cleanup()

        try:
            loop.drive(go(), max_time=200)
        except Quiescent:
            raise Violation("static-hangs", f"request {method} {target!r} never completes")
        raw = out["raw"]
        resps, problem = refhttp.frame_responses(raw, head_request_indexes=(0,) if method == "HEAD" else (), closed=True)
        return resps, raw, problem, loop.exc_contexts
    finally:
        loop.shutdown()


# ------------------------------------------------------------------ confinement
SEGMENTS = [b"..", b".", b"%2e%2e", b"%2E%2e", b".%2e", b"%2e", b"%2f", b"%2F", b"%5c", b"\\", b"", b"%00", b"%c0%ae%c0%ae", b"%252e%252e", b"..%2f", b"..%5c", b"%2e%2e%2f",
            b"sub", b"in.txt", b"in2.txt", b"link_out_dir", b"link_out_file", b"link_in", b"link_sibling", b"loop", b"fifo", b".hidden", b"x.txt", b"dir.d", b"f",
            b"outside", b"secret.txt", b"www-backup", b"leak.txt", b"www.key", b"www", b"C:", b"etc", b"passwd", b"a%20b.txt", b"in.txt.", b"in.txt%20", b"..;", b"....",
            b"%2e%2e%2fwww-backup%2fleak.txt", b"..%2Fwww.key", b"..%2foutside%2fsecret.txt",
            b"pc.txt", b"pc.txt.gz", b"sl.txt", b"sl.txt.gz", b"dl.txt", b"dl.txt.gz", b"secret.txt.gz"]


def check_confine(rec: Rec, case: dict) -> None:
    t = tree()
    target = case["target"]
    follow, index, method = case["follow"], case["index"], case["method"]
    resps, raw, problem, excs = fetch(target, method=method, follow=follow, index=index, headers=[("Accept-Encoding", case["ae"])] if case.get("ae") else None)
    enc = any(x in target.lower() for x in (b"%2e", b"%2f", b"%5c", b"\\", b"%00", b"%25")) or b"link" in target or b".." in target
    rec.case(case, enc, ["confine", f"follow={follow}", f"index={index}"])
    if problem:
        raise Violation("static-malformed-response", f"{method} {target!r}: {problem}")
    if excs:
        e = excs[0].get("exception")
        raise Violation(hyp.exc_key(e, "loop-exception") if e else "loop-exception", f"{method} {target!r}: {excs[0].get('message')} {e!r}"[:300])
    if not resps:
        return
    r = resps[0]
    if r.status in (200, 206):
        ctype = (r.get(b"content-type") or b"").lower()
        if method == "HEAD":
            return
        body = r.body
        if (r.get(b"content-encoding") or b"").lower() == b"gzip":
            import gzip

            if not case.get("ae"):
                raise Violation("static-encoded-without-accept", f"{method} {target!r}: Content-Encoding: gzip although the request did not accept it")
            try:
                body = gzip.decompress(r.body)
            except Exception as e:  # noqa: BLE001
                raise Violation("static-bad-gzip", f"{method} {target!r}: Content-Encoding: gzip but the body does not decode: {e}")
            r = refhttp.Resp(status=r.status, headers=r.headers, body=body, complete=r.complete) if hasattr(refhttp, "Resp") and False else r
        if body.startswith(b"FILE:"):
            marker = body.split(b"\n", 1)[0][5:].decode()
            real = os.path.realpath(os.path.join(t.base, marker))
            allowed = t.via_links if follow else t.inside
            if real not in allowed:
                raise Violation("static-escape" + ("/follow" if follow else ""), f"{method} {target!r} (follow_symlinks={follow}) served {marker!r}, which is outside the root")
            if body != t.files[real] and r.status == 200:
                raise Violation("static-wrong-bytes", f"{method} {target!r}: body differs from file {marker}")
        elif b"text/html" in ctype:
            if not index:
                raise Violation("static-listing-without-show-index", f"{method} {target!r} returned a directory listing")
            names = re.findall(rb'href="([^"]*)"', r.body)
            for nme in names:
                if b".." in nme or nme.startswith((b"//", b"http")):
                    raise Violation("static-listing-link-outside", f"{method} {target!r}: listing links to {nme!r}")
        else:
            if body[:2] == b"\x1f\x8b":
                import gzip

                inner = gzip.decompress(body)  # a .gz file requested by its own name is served as it is
                marker = inner.split(b"\n", 1)[0][5:].decode()
                real = os.path.realpath(os.path.join(t.base, marker))
                if real not in (t.via_links if follow else t.inside):
                    raise Violation("static-escape" + ("/follow" if follow else ""), f"{method} {target!r} (follow_symlinks={follow}) served {marker!r}, which is outside the root")
            else:
                raise Violation("static-unknown-content", f"{method} {target!r}: 200 with unexpected body {r.body[:40]!r}")
    elif r.status >= 500:
        rec.label("confine-5xx(no content served)")


@st.composite
def confine_cases(draw):
    segs = draw(st.lists(st.sampled_from(SEGMENTS), min_size=1, max_size=6))
    sep = draw(st.sampled_from([b"/", b"/", b"/", b"//", b"%2f", b"\\"]))
    prefix = draw(st.sampled_from([b"/static/", b"/static/", b"/static//", b"/static", b"//static/", b"/static/sub/", b"/static/../static/", b"/static%2f", b"/./static/"]))
    return {"target": prefix + sep.join(segs) + draw(st.sampled_from([b"", b"", b"/", b"?x=1", b"%00"])), "follow": draw(st.booleans()), "index": draw(st.booleans()),
            "method": draw(st.sampled_from(["GET", "GET", "HEAD"])), "ae": draw(st.sampled_from([None, "gzip", "gzip, br", "identity"]))}


def unit_confine(rec: Rec, n: int, offset: int) -> None:
    hyp.run(rec, confine_cases(), check_confine, n, seed_offset=offset, max_root_causes=5)


def unit_confine_fixed(rec: Rec) -> None:
    """Every single segment and every pair behind the prefix, both configurations."""
    for a in SEGMENTS:
        for b in [None] + SEGMENTS[:17] + [b"secret.txt", b"leak.txt", b"www.key", b"www-backup", b"outside"]:
            for follow in (False, True):
                target = b"/static/" + a + (b"/" + b if b is not None else b"")
                for ae in (None, "gzip"):
                    case = {"target": target, "follow": follow, "index": False, "method": "GET", "ae": ae}
                    try:
                        check_confine(rec, case)
                    except Violation as v:
                        rec.fail(v.key, v.msg, case)
    rec.exhaustive = True


# ------------------------------------------------------------------ ranges
def model_range(spec: str, size: int):
    """RFC 9110 14.1.2 for a single range; returns ('206', a, b) | ('416',) | ('200',) | ('either',)."""
    m = re.fullmatch(r"bytes=([0-9]*)-([0-9]*)", spec)
    if not m or (m.group(1) == "" and m.group(2) == ""):
        return ("either",)
    a, b = m.group(1), m.group(2)
    if a == "":
        n = int(b)
        if n == 0 or size == 0:  # RFC 9110 14.1.2: only a suffix range of non-zero length is satisfiable
            return ("416",)
        if size == 0:
            return ("416",)
        return ("206", max(0, size - n), size - 1)
    a = int(a)
    if b != "" and int(b) < a:
        return ("either",)
    if a >= size:
        return ("416",)
    e = size - 1 if b == "" else min(int(b), size - 1)
    return ("206", a, e)


def http_date(ts: float, fmt: str) -> str:
    """The three HTTP-date spellings a server must accept (RFC 9110 5.6.7): IMF-fixdate, RFC 850, asctime()."""
    import time
    tm = time.gmtime(int(ts))
    if fmt == "imf":
        return formatdate(int(ts), usegmt=True)
    day = ["Mon", "Tue", "Wed", "Thu", "Fri", "Sat", "Sun"][tm.tm_wday]
    long_day = ["Monday", "Tuesday", "Wednesday", "Thursday", "Friday", "Saturday", "Sunday"][tm.tm_wday]
    mon = ["Jan", "Feb", "Mar", "Apr", "May", "Jun", "Jul", "Aug", "Sep", "Oct", "Nov", "Dec"][tm.tm_mon - 1]
    if fmt == "rfc850":
        return f"{long_day}, {tm.tm_mday:02d}-{mon}-{tm.tm_year % 100:02d} {tm.tm_hour:02d}:{tm.tm_min:02d}:{tm.tm_sec:02d} GMT"
    if fmt == "asctime":
        return f"{day} {mon} {tm.tm_mday:2d} {tm.tm_hour:02d}:{tm.tm_min:02d}:{tm.tm_sec:02d} {tm.tm_year}"
    raise AssertionError(fmt)


def check_range(rec: Rec, case: dict) -> None:
    t = tree()
    size = case["size"]
    path = os.path.join(t.root, f"r{size}.bin")
    data = t.files[os.path.realpath(path)]
    hdrs = []
    if case.get("range") is not None:
        hdrs.append(("Range", case["range"]))
    st_ = os.stat(path)
    etag = f'"{st_.st_mtime_ns:x}-{st_.st_size:x}"'
    cond = case.get("cond")
    date_old = http_date(st_.st_mtime - 1000, case.get("datefmt", "imf"))
    date_new = http_date(st_.st_mtime + 1000, case.get("datefmt", "imf"))
    expect_cond = None
    atoms = cond.split("+") if cond else []
    have = {}
    for atom in atoms:
        if atom == "if-range-old":
            hdrs.append(("If-Range", date_old)); have["if-range"] = "stale"
        elif atom == "if-range-new":
            hdrs.append(("If-Range", date_new)); have["if-range"] = "fresh"
        elif atom == "if-range-etag-same":
            hdrs.append(("If-Range", etag)); have["if-range"] = "fresh"
        elif atom == "if-range-etag-other":
            hdrs.append(("If-Range", '"zzz"')); have["if-range"] = "stale"
        elif atom == "if-range-etag-weak":
            hdrs.append(("If-Range", "W/" + etag)); have["if-range"] = "stale"  # If-Range needs a strong match (RFC 9110 13.1.5)
        elif atom == "if-range-garbage":
            hdrs.append(("If-Range", "garbage")); have["if-range"] = "stale"  # no validator at all: cannot match (RFC 9110 13.1.5)
        elif atom == "if-range-unquoted":
            hdrs.append(("If-Range", etag.strip('"'))); have["if-range"] = "stale"  # not an entity-tag, not a date
        elif atom == "if-none-match-star":
            hdrs.append(("If-None-Match", "*")); have["inm"] = True
        elif atom == "if-none-match-weak-same":
            hdrs.append(("If-None-Match", "W/" + etag)); have["inm"] = True  # weak comparison
        elif atom == "if-none-match-list":
            hdrs.append(("If-None-Match", '"aaa", ' + etag + ', "bbb"')); have["inm"] = True
        elif atom == "if-match-star":
            hdrs.append(("If-Match", "*")); have["im"] = True
        elif atom == "if-match-weak-same":
            hdrs.append(("If-Match", "W/" + etag)); have["im"] = False  # strong comparison: a weak tag never matches
        elif atom == "if-match-list":
            hdrs.append(("If-Match", '"aaa", ' + etag)); have["im"] = True
        elif atom == "if-none-match-same":
            hdrs.append(("If-None-Match", etag)); have["inm"] = True
        elif atom == "if-none-match-other":
            hdrs.append(("If-None-Match", '"zzz"')); have["inm"] = False
        elif atom == "if-match-other":
            hdrs.append(("If-Match", '"zzz"')); have["im"] = False
        elif atom == "if-match-same":
            hdrs.append(("If-Match", etag)); have["im"] = True
        elif atom == "if-modified-since-new":
            hdrs.append(("If-Modified-Since", date_new)); have["ims"] = "not-modified"
        elif atom == "if-modified-since-old":
            hdrs.append(("If-Modified-Since", date_old)); have["ims"] = "modified"
        elif atom == "if-unmodified-since-old":
            hdrs.append(("If-Unmodified-Since", date_old)); have["ius"] = "modified"
        elif atom == "if-unmodified-since-new":
            hdrs.append(("If-Unmodified-Since", date_new)); have["ius"] = "not-modified"
        else:
            raise AssertionError(atom)
    # RFC 9110 13.2.2 precedence: If-Match, else If-Unmodified-Since; then If-None-Match, else If-Modified-Since; then If-Range
    if "im" in have:
        if not have["im"]:
            expect_cond = "412"
    elif have.get("ius") == "modified":
        expect_cond = "412"
    if expect_cond is None:
        if "inm" in have:
            if have["inm"]:
                expect_cond = "304"
        elif have.get("ims") == "not-modified":
            expect_cond = "304"
    if expect_cond is None and have.get("if-range") == "stale":
        expect_cond = "ignore-range"
    method = case.get("method", "GET")
    resps, raw, problem, excs = fetch(f"/static/r{size}.bin".encode(), method=method, headers=hdrs)
    spec = case.get("range")
    nt = spec is not None and (spec.startswith("bytes=-") or bool(re.search(r"-(\d+)$", spec)) and int(re.search(r"-(\d+)$", spec).group(1)) >= size)
    rec.case(case, bool(nt), ["range", f"size={size}"] + ([f"cond={cond}"] if cond else []))
    if problem or not resps:
        raise Violation("range-malformed-response", f"{case}: {problem or raw[:80]!r}")
    if excs:
        e = excs[0].get("exception")
        raise Violation(hyp.exc_key(e, "loop-exception") if e else "loop-exception", f"{case}: {excs[0].get('message')} {e!r}"[:300])
    r = resps[0]
    cl = r.get(b"content-length")
    cr = r.get(b"content-range")
    body = r.body
    # ---- mutual consistency
    if r.status == 206:
        m = re.fullmatch(rb"bytes (\d+)-(\d+)/(\d+)", cr or b"")
        if not m:
            raise Violation("range-bad-content-range", f"{case}: 206 with Content-Range {cr!r}")
        a, b, total = map(int, m.groups())
        if not (0 <= a <= b < size) or total != size:
            raise Violation("range-bad-content-range", f"{case}: 206 with Content-Range {cr!r} for a {size}-byte file")
        if cl is None or int(cl) != b - a + 1:
            raise Violation("range-length-mismatch", f"{case}: Content-Range {cr!r} but Content-Length {cl!r}")
        if method == "GET" and body != data[a:b + 1]:
            raise Violation("range-wrong-bytes", f"{case}: body {body[:20]!r}.. ({len(body)} B) != file[{a}:{b + 1}]")
    elif r.status == 200:
        if cl is None or int(cl) != size:
            raise Violation("range-length-mismatch", f"{case}: 200 with Content-Length {cl!r} for a {size}-byte file")
        if method == "GET" and body != data:
            raise Violation("range-wrong-bytes", f"{case}: 200 body differs from the file")
        if cr is not None:
            raise Violation("range-bad-content-range", f"{case}: 200 with Content-Range {cr!r}")
    elif r.status == 416:
        if cr != f"bytes */{size}".encode():
            raise Violation("range-bad-content-range", f"{case}: 416 with Content-Range {cr!r}")
    elif r.status in (304, 412):
        if body:
            raise Violation("range-body-on-empty-status", f"{case}: {r.status} with a {len(body)}-byte body")
    else:
        raise Violation("range-unexpected-status", f"{case}: status {r.status}")
    if method == "HEAD" and body:
        raise Violation("range-head-with-body", f"{case}: HEAD answered with {len(body)} body bytes")
    # ---- decision
    if expect_cond in ("304", "412"):
        if str(r.status) != expect_cond:
            raise Violation(f"conditional/{cond}", f"{case}: expected {expect_cond}, got {r.status}")
        return
    if r.status in (304, 412):
        raise Violation(f"conditional/{cond}", f"{case}: unexpected {r.status}")
    if spec is None or expect_cond == "ignore-range":
        if r.status != 200:
            raise Violation("range-decision", f"{case}: expected 200 (no applicable Range), got {r.status}")
        return
    want = model_range(spec, size)
    if want[0] == "either":
        if r.status not in (200, 206, 416):
            raise Violation("range-decision", f"{case}: malformed spec answered {r.status}")
    elif want[0] == "416":
        if r.status != 416:
            raise Violation("range-decision/unsatisfiable", f"{case}: unsatisfiable range answered {r.status} {cr!r}")
    else:
        if r.status != 206 or cr != f"bytes {want[1]}-{want[2]}/{size}".encode():
            raise Violation("range-decision/slice", f"{case}: expected 206 bytes {want[1]}-{want[2]}/{size}, got {r.status} {cr!r}")


def range_grid(size: int):
    specs = [None]
    hi = size + 2
    for a in range(0, hi + 1):
        specs.append(f"bytes={a}-")
        for b in range(0, hi + 1):
            specs.append(f"bytes={a}-{b}")
    for n in range(0, hi + 1):
        specs.append(f"bytes=-{n}")
    specs += ["bytes=a-b", "bytes=5-2", "bytes=0-0,2-3", "items=0-1", "bytes= 0-1", "bytes=0 - 1", "bytes=-", "bytes=", "bytes=0-1-2", "bytes=٠-١", "BYTES=0-1", "bytes=+0-1",
              "bytes=0x0-1", f"bytes={10 ** 30}-", "bytes=-99999999999999999999"]
    return specs


def unit_ranges(rec: Rec, size: int, shard: int, nshards: int, conds: list) -> None:
    grid = range_grid(size if size < 100 else 12)
    if size >= 100:
        grid += [f"bytes={size - 1}-", f"bytes={size}-", f"bytes={size - 1}-{size + 5}", f"bytes=-{size}", f"bytes=-{size + 1}", f"bytes=4096-4097", "bytes=0-8192", "bytes=8192-8192",
                 "bytes=8193-8193"]
    i = -1
    for si, spec in enumerate(grid):
        for method in ("GET", "HEAD"):
            for cond in conds:
                i += 1
                if i % nshards != shard:
                    continue
                dated = cond is not None and ("since" in cond or "if-range-old" in cond or "if-range-new" in cond)
                # the obsolete date spellings on every fifth spec (and on the plain request): the answer may not
                # depend on how the date is written
                fmts = ("imf", "rfc850", "asctime") if dated and (spec is None or si % 5 == 0) else ("imf",)
                for fmt in fmts:
                    case = {"size": size, "range": spec, "method": method, "cond": cond}
                    if fmt != "imf":
                        case["datefmt"] = fmt
                    try:
                        check_range(rec, case)
                    except Violation as v:
                        rec.fail(v.key, v.msg, case)
    rec.exhaustive = True


COMBOS = ["if-none-match-other+if-modified-since-new", "if-none-match-same+if-modified-since-old", "if-match-same+if-unmodified-since-old",
          "if-match-other+if-none-match-same", "if-unmodified-since-new+if-modified-since-new", "if-match-same+if-none-match-same",
          "if-none-match-other+if-modified-since-new+if-range-old", "if-unmodified-since-old+if-none-match-same"]
CONDS = [None, "if-range-old", "if-range-new", "if-none-match-same", "if-none-match-other", "if-match-other", "if-match-same", "if-modified-since-new", "if-modified-since-old",
         "if-unmodified-since-old", "if-unmodified-since-new", "if-range-etag-same", "if-range-etag-other", "if-range-etag-weak", "if-range-garbage", "if-range-unquoted", "if-none-match-star",
         "if-none-match-weak-same", "if-none-match-list", "if-match-star", "if-match-weak-same", "if-match-list"] + COMBOS


def units(tier: str, seed: int) -> list[Unit]:
    us = []
    n = 1500 if tier == "quick" else 30000
    for i in range(6):
        us.append(Unit(f"confine{i}", unit_confine, {"n": n, "offset": i}))
    us.append(Unit("confine-fixed", unit_confine_fixed, {}))
    sizes = [0, 1, 2, 10] if tier == "quick" else SIZES
    for size in sizes:
        ns = 2
        for sh in range(ns):
            us.append(Unit(f"ranges-{size}-{sh}", unit_ranges, {"size": size, "shard": sh, "nshards": ns, "conds": [None] if tier == "quick" else CONDS}))
    if tier == "quick":
        us.append(Unit("ranges-conds", unit_ranges, {"size": 2, "shard": 0, "nshards": 1, "conds": CONDS[1:]}))
        us.append(Unit("ranges-8193", unit_ranges, {"size": 8193, "shard": 0, "nshards": 3, "conds": [None]}))
    return us


def replay(rec: Rec, case: dict) -> None:
    if "target" in case:
        check_confine(rec, case)
    else:
        check_range(rec, case)
