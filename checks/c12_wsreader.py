"""C12 WebSocket reader: protocol enforcement, size bounds, segmentation independence."""
from __future__ import annotations

import itertools
import struct
import zlib

from hypothesis import strategies as st

from vlib import hyp, refws
from vlib.refws import OP_BINARY, OP_CLOSE, OP_CONT, OP_PING, OP_PONG, OP_TEXT, encode_frame
from vlib.runner import Rec, Unit, Violation

PROPERTY = "C12"
LEVEL = "exploration"
RULE = (
    "case = (reader config: compress, decode_text, max_msg_size; byte stream built from a generated frame list: valid "
    "(fragmented / compressed / interleaved control) messages with one violation class injected at a generated frame "
    "position, or raw byte mutations; segmentation: all 1-cuts and 2-cuts exhaustively for streams <= 100 bytes, "
    "bytewise and random k-cuts beyond).  Oracle: independent RFC 6455/7692 decoder (messages up to first violation, "
    "close code), identical outcome for every segmentation, retained-buffer bound after every feed.  Non-trivial = the "
    "stream contains a violation or at least one cut falls inside a frame (header, mask or payload).  "
    "distinct = (config, stream, cut tuple)."
)
ASSUMPTIONS = [
    "DON'T-CARE (not decided): size exactly equal to max_msg_size; whether the size limit is applied to the declared wire "
    "size at the header or to the assembled message; frames after a Close frame; mask direction; non-minimal length "
    "encodings; deflate BFINAL blocks; close code when both a sequencing error and an over-size apply",
    "retained bytes are read from the reader's private buffers (_partial, _payload_fragments, _tail) when present",
]


CLASSES = ["rsv2", "rsv3", "rsv1_nocompress", "rsv1_cont", "rsv1_ctrl", "bad_opcode", "ctrl_nofin", "ctrl_len126",
                "ctrl_len127", "cont_nostart", "new_in_frag", "new_in_frag_empty_first", "bad_utf8_text", "bad_utf8_close",
                "close_1byte", "close_code", "size_plain", "size_frag", "size_inflated", "len64_huge", "len64_msb",
                "bomb", "bfinal_members", "corrupt_deflate", "utf8_split_ok",
]


class StubLoop:
    """call_soon() only: callbacks run when the driver lets "one loop iteration" pass."""

    def __init__(self) -> None:
        self.ready: list = []

    def call_soon(self, cb, *args):
        self.ready.append((cb, args))

    def create_future(self):  # a consumer never waits here (read() is only called when it will not block)
        raise AssertionError("reader harness: read() would block")

    def run_ready(self) -> None:
        ready, self.ready = self.ready, []
        for cb, args in ready:
            cb(*args)


class StubProto:
    def __init__(self) -> None:
        self._reading_paused = False
        self.pauses = 0

    def pause_reading(self) -> None:
        self._reading_paused = True
        self.pauses += 1

    def resume_reading(self, resume_parser: bool = True) -> None:
        self._reading_paused = False


def run_reader(stream: bytes, cfg: dict, cuts: tuple, check_mem: bool = True, eof_first: bool = False):
    """Feed `stream` cut at `cuts` into a fresh real reader.  Returns (messages, error)."""
    from aiohttp import WSMsgType
    from aiohttp._websocket.models import WebSocketError
    from aiohttp._websocket.reader_py import WebSocketDataQueue, WebSocketReader

    proto = StubProto()
    sloop = StubLoop()
    q = WebSocketDataQueue(proto, 2 ** 40, loop=sloop)  # type: ignore[arg-type]
    r = WebSocketReader(q, cfg["max_msg_size"], compress=cfg["compress"], decode_text=cfg["decode_text"])
    prev = 0
    mx = cfg["max_msg_size"]
    worst = 0
    for c in list(cuts) + [len(stream)]:
        seg = stream[prev:c]
        prev = c
        err, _ = r.feed_data(seg)
        if err:
            break
        if proto._reading_paused:
            # a transport that honours pause_reading() delivers nothing more until it is resumed: with no complete message
            # queued (nothing for a consumer to take, which is what resumes a full queue) somebody has to do that by itself
            for _ in range(3):
                sloop.run_ready()
            if proto._reading_paused and not q._buffer and c < len(stream):
                raise Violation("reader-stalls", f"reading was paused after {c} of {len(stream)} bytes ({len(cuts) + 1} segments) with nothing queued for the "
                                f"consumer and nothing scheduled to resume it: the rest of the frame can never arrive")
        if check_mem and mx:
            held = 0
            for name in ("_partial", "_tail"):
                held += len(getattr(r, name, b"") or b"")
            frs = getattr(r, "_payload_fragments", None)
            if frs:
                held += sum(len(f) for f in frs)
            bound = mx + 14 + 125 + len(seg)  # 14 = largest header, 125 = largest control-frame payload
            if held > bound:
                raise Violation("memory-bound", f"{held} bytes retained for an incomplete message > max_msg_size {mx} + 14 + 125 + segment {len(seg)}")
            worst = max(worst, held)
    if eof_first:
        # the peer goes away right after its last byte, before the application comes to read: what was recorded stays
        r.feed_eof()
    # what a consumer gets: through the queue's read() (nothing is awaited here: read() only waits on an empty,
    # still-open queue, and then it is not called)
    delivered = []
    while q._buffer or q.exception() is not None:
        coro = q.read()
        try:
            coro.send(None)
        except StopIteration as si:
            delivered.append(si.value)
            continue
        except BaseException as e:  # noqa: BLE001 - the latched error (or EofStream) ends the stream for the consumer
            if e is not q.exception():
                raise Violation("consumer-sees-other-error", f"read() raised {e!r}, the reader had recorded {q.exception()!r}")
            break
        coro.close()
        raise Violation("consumer-would-block", f"read() waits although {len(q._buffer)} message(s) are queued / an error is recorded")
    msgs = []
    for m in delivered:
        t = m.type
        if t == WSMsgType.TEXT:
            msgs.append(("text", m.data if isinstance(m.data, str) else bytes(m.data)))
        elif t == WSMsgType.BINARY:
            msgs.append(("binary", bytes(m.data)))
        elif t == WSMsgType.PING:
            msgs.append(("ping", bytes(m.data)))
        elif t == WSMsgType.PONG:
            msgs.append(("pong", bytes(m.data)))
        elif t == WSMsgType.CLOSE:
            msgs.append(("close", int(m.data), m.extra))
        else:
            msgs.append((str(t), repr(m.data)))
        if cfg["max_msg_size"] and t in (WSMsgType.TEXT, WSMsgType.BINARY):
            size = len(m.data.encode("utf-8")) if isinstance(m.data, str) else len(m.data)
            if size > cfg["max_msg_size"]:
                raise Violation("oversize-delivered", f"delivered a {size}-byte message with max_msg_size={cfg['max_msg_size']}")
    exc = q.exception()
    if exc is None:
        err_out = None
    elif isinstance(exc, WebSocketError):
        err_out = ("ws", int(exc.code))
    else:
        err_out = ("exc", type(exc).__name__)
    return msgs, err_out


def ref_outcomes(stream: bytes, cfg: dict):
    base = refws.Config(compress=cfg["compress"], decode_text=cfg["decode_text"], max_msg_size=cfg["max_msg_size"])
    return [refws.decode(stream, v) for v in base.variants()]


def matches(msgs, err, ref: refws.Outcome) -> str | None:
    """None if the implementation outcome is acceptable under this reference variant."""
    rm = list(ref.messages)
    if ref.undecided:
        if msgs[: len(rm)] != rm:
            return f"messages before the undecided point differ: impl {short(msgs[:len(rm)])} ref {short(rm)}"
        return None
    if ref.closed:
        # everything after the first Close frame is DON'T-CARE
        idx = next((i for i, m in enumerate(msgs) if m[0] == "close"), None)
        if idx is None:
            return f"reference delivers a Close as message #{len(rm) - 1}, implementation delivered {len(msgs)} messages, no Close"
        if msgs[: idx + 1] != rm:
            return f"messages up to the Close differ: impl {short(msgs[:idx + 1])} ref {short(rm)}"
        return None
    if msgs != rm:
        return f"messages differ: impl {short(msgs)} ref {short(rm)}"
    if ref.error is None:
        if err is not None:
            return f"implementation raised {err} on a stream the reference accepts"
        return None
    if err is None:
        if ref.error_optional:
            return None
        return f"violation not reported: {ref.why} (expected close code {sorted(ref.error) or 'any'})"
    if ref.error and not (err[0] == "ws" and err[1] in ref.error):
        return f"wrong error for '{ref.why}': got {err}, expected close code in {sorted(ref.error)}"
    return None


def short(ms) -> str:
    out = []
    for m in ms[:6]:
        if m[0] == "close":
            out.append(repr(m))
        else:
            d = m[1]
            out.append(f"({m[0]},{len(d)}:{d[:12]!r})")
    return "[" + ",".join(out) + ("..." if len(ms) > 6 else "") + "]"


def check_stream(rec: Rec, stream: bytes, cfg: dict, cutsets, meta: dict, frame_edges: set) -> None:
    case0 = {"cfg": cfg, "stream": stream, "cuts": [], "meta": meta}
    msgs, err = run_reader(stream, cfg, ())
    refs = ref_outcomes(stream, cfg)
    problems = []
    for rf in refs:
        p = matches(msgs, err, rf)
        if p is None:
            problems = []
            break
        problems.append(p)
    has_violation = any(rf.error is not None for rf in refs)
    rec.case(case0, has_violation, [meta.get("cls", "valid")] + (["violation"] if has_violation else []))
    if problems:
        cls = meta.get("cls", "?")
        raise Violation(f"ref-mismatch/{cls}", f"cfg={cfg} class={cls}: {problems[0]}")
    # the connection is lost right behind the last byte, and the application reads only then: same messages, same error
    m3, e3 = run_reader(stream, cfg, (), eof_first=True)
    if (m3, e3) != (msgs, err):
        raise Violation("outcome-lost-at-eof", f"cfg={cfg} class={meta.get('cls')}: read before the connection is lost -> {short(msgs)} err={err}; "
                        f"read after it is lost -> {short(m3)} err={e3}")
    n = 0
    for cuts in cutsets:
        n += 1
        m2, e2 = run_reader(stream, cfg, cuts)
        inside = any(c not in frame_edges for c in cuts)
        rec.case({"cfg": cfg, "stream": stream, "cuts": list(cuts)}, inside or has_violation, ["cut_inside_frame"] if inside else [])
        if (m2, e2) != (msgs, err):
            raise Violation(
                "segmentation-dependent",
                f"cfg={cfg} class={meta.get('cls')} cuts={cuts}: one-read outcome {short(msgs)} err={err} but cut outcome {short(m2)} err={e2}",
            )


# ------------------------------------------------------------------ stream grammar
def utf8_text(draw, n: int) -> bytes:
    s = draw(st.text(alphabet=st.sampled_from("aé✓𝄞 z"), max_size=max(1, n)))
    return s.encode()[: max(0, n * 3)]


def frames_to_bytes(frames: list) -> tuple[bytes, set]:
    out = bytearray()
    edges = {0}
    for f in frames:
        out += encode_frame(**f)
        edges.add(len(out))
    return bytes(out), edges


def split_payload(draw, data: bytes, k: int) -> list[bytes]:
    if k <= 1:
        return [data]
    pts = sorted(draw(st.lists(st.integers(0, len(data)), min_size=k - 1, max_size=k - 1)))
    pts = [0] + pts + [len(data)]
    return [data[pts[i]:pts[i + 1]] for i in range(k)]


def ctrl_frame(draw, mask):
    op = draw(st.sampled_from([OP_PING, OP_PONG]))
    return {"opcode": op, "payload": draw(st.binary(max_size=draw(st.sampled_from([0, 3, 125])))), "mask": mask}


@st.composite
def streams(draw, small: bool, forced_cls: str | None = None):
    compress = draw(st.booleans())
    mx = draw(st.sampled_from([0, 0, 1, 16, 16, 64, 256, 4 * 2 ** 20]))
    cfg = {"compress": compress, "decode_text": draw(st.booleans()), "max_msg_size": mx}
    masked = draw(st.booleans())
    mk = (lambda: draw(st.binary(min_size=4, max_size=4))) if masked else (lambda: None)
    deflater = refws.Deflater(draw(st.sampled_from([9, 15])), draw(st.booleans()))
    frames: list = []
    nitems = draw(st.integers(1, 3 if small else 6))
    vio_at = draw(st.integers(0, nitems - 1 if forced_cls else nitems))  # == nitems: no violation
    cls = "valid"
    base = mx if mx and mx <= 256 else 20

    def data_message(size_choice=None, force_text=None, force_comp=None, bad_utf8=False):
        is_text = draw(st.booleans()) if force_text is None else force_text
        size = size_choice if size_choice is not None else draw(st.sampled_from([0, 1, 2, 5, base - 1, base, base + 1, 30]))
        size = max(0, size)
        if is_text:
            payload = (("é✓a" * (size // 6 + 1)).encode())[:size]
            # keep valid UTF-8
            while True:
                try:
                    payload.decode()
                    break
                except UnicodeDecodeError:
                    payload = payload[:-1]
            payload = payload + b"x" * (size - len(payload))
            if bad_utf8:
                i = draw(st.integers(0, len(payload)))
                payload = payload[:i] + draw(st.sampled_from([b"\xff", b"\xc3", b"\xe2\x9c", b"\xed\xa0\x80", b"\xc0\xaf"])) + payload[i:]
                if payload.endswith((b"\xc3", b"\xe2\x9c")) is False and i < len(payload) - 3:
                    pass
        else:
            payload = draw(st.binary(min_size=size, max_size=size)) if size <= 40 else bytes((i * 7 + 3) & 0xFF for i in range(size))
        comp = (draw(st.booleans()) if force_comp is None else force_comp) and compress
        wire = deflater.message(payload) if comp else payload
        k = draw(st.integers(1, 3))
        parts = split_payload(draw, wire, k)
        fs = []
        for i, part in enumerate(parts):
            fs.append({"opcode": (OP_TEXT if is_text else OP_BINARY) if i == 0 else OP_CONT, "payload": part,
                       "fin": i == len(parts) - 1, "rsv1": comp and i == 0, "mask": mk()})
            if i < len(parts) - 1 and draw(st.integers(0, 3)) == 0:
                fs.append(ctrl_frame(draw, mk()))
        return fs

    for item in range(nitems + 1):
        if item == vio_at and item < nitems or (item == nitems and vio_at == nitems and False):
            cls = forced_cls or draw(st.sampled_from(CLASSES))
            if cls in ("rsv2", "rsv3"):
                fs = data_message() if draw(st.booleans()) else [ctrl_frame(draw, mk())]
                i = draw(st.integers(0, len(fs) - 1))
                fs[i][cls] = True
                frames += fs
            elif cls == "rsv1_nocompress":
                fs = data_message(force_comp=False)
                fs[0]["rsv1"] = True
                frames += fs
            elif cls == "rsv1_cont":
                fs = data_message(size_choice=6)
                if len(fs) < 2 or fs[1]["opcode"] != OP_CONT:
                    p = fs[0]["payload"]
                    fs = [dict(fs[0], payload=p[:1], fin=False), {"opcode": OP_CONT, "payload": p[1:], "fin": True, "mask": mk()}]
                fs[1]["rsv1"] = True
                frames += fs
            elif cls == "rsv1_ctrl":
                f = ctrl_frame(draw, mk())
                f["rsv1"] = True
                frames.append(f)
            elif cls == "bad_opcode":
                frames.append({"opcode": draw(st.sampled_from([3, 4, 5, 6, 7, 0xB, 0xC, 0xD, 0xE, 0xF])),
                               "payload": draw(st.binary(max_size=5)), "fin": draw(st.booleans()), "mask": mk()})
            elif cls == "ctrl_nofin":
                f = ctrl_frame(draw, mk())
                if draw(st.booleans()):
                    f["opcode"] = OP_CLOSE
                    f["payload"] = b""
                f["fin"] = False
                frames.append(f)
            elif cls in ("ctrl_len126", "ctrl_len127"):
                n = draw(st.sampled_from([0, 5, 126, 200]))
                frames.append({"opcode": draw(st.sampled_from([OP_PING, OP_PONG, OP_CLOSE])), "payload": b"\x03\xe8" + b"p" * max(0, n - 2) if n >= 2 else b"",
                               "len_form": 126 if cls == "ctrl_len126" else 127, "mask": mk()})
            elif cls == "cont_nostart":
                frames.append({"opcode": OP_CONT, "payload": draw(st.binary(max_size=4)), "fin": draw(st.booleans()), "mask": mk()})
            elif cls in ("new_in_frag", "new_in_frag_empty_first"):
                first = b"" if cls.endswith("empty_first") else b"ab"
                frames.append({"opcode": draw(st.sampled_from([OP_TEXT, OP_BINARY])), "payload": first, "fin": False, "mask": mk()})
                if draw(st.booleans()):
                    frames.append(ctrl_frame(draw, mk()))
                frames.append({"opcode": draw(st.sampled_from([OP_TEXT, OP_BINARY])), "payload": b"cd", "fin": draw(st.booleans()), "mask": mk()})
                frames.append({"opcode": OP_CONT, "payload": b"ef", "fin": True, "mask": mk()})
            elif cls == "bad_utf8_text":
                frames += data_message(force_text=True, bad_utf8=True, size_choice=draw(st.sampled_from([0, 3, 9])))
            elif cls == "utf8_split_ok":
                cls = "valid"
                whole = "a✓𝄞é".encode()
                i = draw(st.integers(1, len(whole) - 1))
                frames.append({"opcode": OP_TEXT, "payload": whole[:i], "fin": False, "mask": mk()})
                frames.append({"opcode": OP_CONT, "payload": whole[i:], "fin": True, "mask": mk()})
            elif cls == "bad_utf8_close":
                frames.append({"opcode": OP_CLOSE, "payload": struct.pack("!H", 1000) + draw(st.sampled_from([b"\xff", b"ok\xc3", b"\xed\xa0\x80"])), "mask": mk()})
            elif cls == "close_1byte":
                frames.append({"opcode": OP_CLOSE, "payload": b"\x03", "mask": mk()})
            elif cls == "close_code":
                code = draw(st.sampled_from([0, 1, 999, 1000, 1001, 1003, 1004, 1005, 1006, 1007, 1011, 1012, 1013, 1014, 1015, 1016,
                                             1100, 2000, 2999, 3000, 4000, 4999, 5000, 10000, 65535]))
                frames.append({"opcode": OP_CLOSE, "payload": struct.pack("!H", code) + draw(st.sampled_from([b"", b"bye"])), "mask": mk()})
            elif cls in ("size_plain", "size_frag", "size_inflated"):
                if not mx or mx > 256:
                    cfg["max_msg_size"] = mx = draw(st.sampled_from([1, 16, 64, 256]))
                size = max(0, mx + draw(st.sampled_from([-2, -1, 0, 1, 2, 40])))
                if cls == "size_plain":
                    fs = data_message(size_choice=size, force_comp=False)
                elif cls == "size_frag":
                    payload = bytes((i * 5 + 1) & 0x7F | 0x20 for i in range(size))
                    a = draw(st.integers(0, size))
                    fs = [{"opcode": OP_BINARY, "payload": payload[:a], "fin": False, "mask": mk()},
                          ctrl_frame(draw, mk()),
                          {"opcode": OP_CONT, "payload": payload[a:a + (size - a) // 2], "fin": False, "mask": mk()},
                          ctrl_frame(draw, mk()),
                          {"opcode": OP_CONT, "payload": payload[a + (size - a) // 2:], "fin": True, "mask": mk()}]
                else:
                    if not compress:
                        cfg["compress"] = compress = True
                    fs = data_message(size_choice=size, force_comp=True)
                frames += fs
            elif cls in ("len64_huge", "len64_msb"):
                n = draw(st.sampled_from([2 ** 63, 2 ** 64 - 1])) if cls == "len64_msb" else draw(st.sampled_from([2 ** 31, 2 ** 40, 2 ** 63 - 1, 2 ** 32]))
                frames.append({"opcode": draw(st.sampled_from([OP_TEXT, OP_BINARY])), "payload": b"abc", "declared_len": n, "len_form": 127, "mask": mk()})
            elif cls == "bomb":
                if not compress:
                    cfg["compress"] = compress = True
                if not mx:
                    cfg["max_msg_size"] = mx = 256
                raw = b"\x00" * draw(st.sampled_from([mx + 1, mx * 50 + 1000, 300000]))
                wire = deflater.message(raw)
                frames.append({"opcode": OP_BINARY, "payload": wire, "rsv1": True, "mask": mk()})
            elif cls == "bfinal_members":
                if not compress:
                    cfg["compress"] = compress = True
                frames.append({"opcode": OP_BINARY, "payload": b"\x03\x00" * draw(st.sampled_from([1, 5, 1500])), "rsv1": True, "mask": mk()})
            elif cls == "corrupt_deflate":
                if not compress:
                    cfg["compress"] = compress = True
                frames.append({"opcode": OP_BINARY, "payload": draw(st.sampled_from([b"\xff\xff\xff", b"\x07", b"\x00\x05\x00"])), "rsv1": True, "mask": mk()})
        else:
            kind = draw(st.integers(0, 5))
            if kind <= 2:
                frames += data_message()
            elif kind == 3:
                frames.append(ctrl_frame(draw, mk()))
            elif kind == 4 and item == nitems:
                frames.append({"opcode": OP_CLOSE, "payload": struct.pack("!H", 1000) + b"end", "mask": mk()})
            else:
                frames += data_message(size_choice=draw(st.sampled_from([125, 126, 127, 200])) if not small else 3)
    stream, edges = frames_to_bytes(frames)
    trunc = draw(st.integers(0, 6))
    if trunc == 0 and len(stream) > 2:
        stream = stream[: draw(st.integers(1, len(stream) - 1))]
        cls = cls + "+truncated"
    return {"cfg": cfg, "stream": stream, "cls": cls, "edges": sorted(edges)}


@st.composite
def mutated(draw):
    base = draw(streams(True))
    s = bytearray(base["stream"])
    for _ in range(draw(st.integers(1, 3))):
        if not s:
            break
        op = draw(st.sampled_from(["flip", "ins", "del", "dup"]))
        i = draw(st.integers(0, len(s) - 1))
        if op == "flip":
            s[i] ^= 1 << draw(st.integers(0, 7))
        elif op == "ins":
            s[i:i] = draw(st.binary(min_size=1, max_size=3))
        elif op == "del":
            del s[i:i + draw(st.integers(1, 3))]
        else:
            j = draw(st.integers(i, min(len(s), i + 8)))
            s[i:i] = s[i:j]
    base["stream"] = bytes(s)
    base["cls"] = "mutated"
    base["edges"] = [0]
    return base


def cutsets_for(stream: bytes, sel: dict):
    n = len(stream)
    if sel.get("exhaustive") and n <= sel.get("maxlen", 100):
        for i in range(1, n):
            yield (i,)
        for i in range(1, n):
            for j in range(i + 1, n):
                yield (i, j)
    else:
        if n > 1:
            yield tuple(range(1, n)) if n <= 4000 else tuple(range(1, 4000))
        for cs in sel.get("random", []):
            c = tuple(sorted({x % n for x in cs if n > 1} - {0}))
            if c:
                yield c


def body(rec: Rec, case: dict) -> None:
    stream, cfg = case["stream"], case["cfg"]
    sel = case.get("sel") or {"exhaustive": True, "maxlen": 100, "random": [[7, 19], [3], [1, 2, 3, 4, 5, 6, 7, 8, 9, 10, 11, 12, 13, 14], [len(stream) // 2], [len(stream) - 1]]}
    check_stream(rec, stream, cfg, cutsets_for(stream, sel), {"cls": case.get("cls", "?")}, set(case.get("edges", [0])))


def unit_hyp(rec: Rec, n: int, offset: int, small: bool) -> None:
    hyp.run(rec, streams(small), body, n, seed_offset=offset, shrink=True)


def unit_classes(rec: Rec, n: int, offset: int, classes: list) -> None:
    """Every violation class gets its own budget (at generated frame positions)."""
    for k, cls in enumerate(classes):
        hyp.run(rec, streams(True, cls), body, n, seed_offset=offset + k, max_root_causes=2)


def unit_mut(rec: Rec, n: int, offset: int) -> None:
    hyp.run(rec, mutated(), body, n, seed_offset=offset)


def trickle_cases() -> list[dict]:
    """One or two valid frames larger than the reader's fragment cap (1024 pieces), delivered a byte or two at a time."""
    import zlib

    out = []
    for size in (1100, 1500, 3000):
        for masked in (False, True):
            for compress in (False, True):
                for mx in (0, 4096, 65536):
                    payload = bytes((i * 13 + 7) & 0x7F | 0x20 for i in range(size))
                    if compress:
                        co = zlib.compressobj(wbits=-15, level=0)  # stored blocks: the frame stays large on the wire
                        wire = co.compress(payload) + co.flush(zlib.Z_SYNC_FLUSH)
                        wire = wire[:-4]
                    else:
                        wire = payload
                    mask = b"\x01\x02\x03\x04" if masked else None
                    stream = refws.encode_frame(0x2, wire, fin=True, rsv1=compress, mask=mask) + refws.encode_frame(0x1, b"tail", fin=True, mask=mask)
                    for step in (1, 2):
                        out.append({"stream": stream, "cfg": {"compress": compress, "decode_text": False, "max_msg_size": mx}, "step": step,
                                    "cls": f"trickle/{size}/{'masked' if masked else 'plain'}/{'deflate' if compress else 'raw'}/max{mx}"})
    return out


def unit_trickle(rec: Rec, shard: int, nshards: int) -> None:
    rec.exhaustive = True
    for i, case in enumerate(trickle_cases()):
        if i % nshards != shard:
            continue
        stream = case["stream"]
        cuts = tuple(range(case["step"], len(stream), case["step"]))
        try:
            check_stream(rec, stream, case["cfg"], [cuts], {"cls": case["cls"]}, {0})
        except Violation as v:
            if v.key in rec.muted:
                continue
            rec.fail(v.key, v.msg, {"stream": stream, "cfg": case["cfg"], "sel": {"exhaustive": False, "random": [list(cuts)]}, "cls": case["cls"]})
            rec.muted.add(v.key)


def units(tier: str, seed: int) -> list[Unit]:
    n = 60 if tier == "quick" else 1500
    us = []
    for i in range(8):
        us.append(Unit(f"small{i}", unit_hyp, {"n": n, "offset": i, "small": True}))
    for i in range(4):
        us.append(Unit(f"long{i}", unit_hyp, {"n": n * 2, "offset": 50 + i, "small": False}))
    for i in range(4):
        us.append(Unit(f"mut{i}", unit_mut, {"n": n * 2, "offset": 80 + i}))
    per = 12 if tier == "quick" else 300
    for i in range(0, len(CLASSES), 2):
        us.append(Unit(f"classes{i}", unit_classes, {"n": per, "offset": 200 + i * 3, "classes": CLASSES[i:i + 2]}))
    for sh in range(4):
        us.append(Unit(f"trickle{sh}", unit_trickle, {"shard": sh, "nshards": 4}))
    return us


def replay(rec: Rec, case: dict) -> None:
    if "cuts" in case and "sel" not in case and "cls" not in case:
        # a (cfg, stream, cuts) triple recorded by check_stream
        stream, cfg = case["stream"], case["cfg"]
        check_stream(rec, stream, cfg, [tuple(case["cuts"])] if case["cuts"] else [], case.get("meta", {}), {0})
        return
    body(rec, case)
