"""C18 Timeouts and cancellation are bounded and leave no residue."""
from __future__ import annotations

import asyncio
import warnings

from hypothesis import strategies as st

from vlib import hyp, memnet
from vlib.detloop import new_loop
from vlib.runner import Rec, Unit, Violation

PROPERTY = "C18"
LEVEL = "exploration"
RULE = (
    "A real ClientSession on a deterministic virtual-time loop.  Connector: a real TCPConnector whose resolver is "
    "scripted and whose socket-level calls (aiohappyeyeballs.start_connection, create_connection) are replaced by "
    "gated in-memory connections, so the pool wait, DNS, socket connect, request write and response read phases are "
    "all the real code.  stall (fault enumeration): the exchange stalls at one point - waiting for a pool slot, in the "
    "DNS lookup, in the socket connect, while writing a 300 KB request body to a peer that does not read, or after "
    "EVERY byte offset of the response (status line, header lines, blank line, chunk sizes, chunk data, terminator) - "
    "x timeout kind in {total, connect, sock_connect, sock_read} x value in {0.5, 4.9, 5, 7.3} x response shape "
    "(Content-Length, chunked) x a bystander request sharing the pool queue or the in-flight DNS lookup.  cancel "
    "(schedule enumeration): the calling task is cancelled after k loop iterations for EVERY k up to completion, for "
    "each exchange shape and with the peer healthy or stalled.  Oracle: with a timeout that covers the stalled phase "
    "the call raises asyncio.TimeoutError no later than bound (+1 s ceiling when bound > 5 s) after the last progress "
    "and never before the smallest configured bound; afterwards (loop idle, gates released) the stalled connection's "
    "transport is closed, the connector has no acquired connection and no waiter, no task created by the request is "
    "still pending, the bystander completed with its correct response (neither failed nor cancelled), and a follow-up "
    "request on the same session returns the right body.  Non-trivial = every case (each is a distinct fault point x "
    "timeout kind / cancel point).  distinct = case JSON."
)
ASSUMPTIONS = [
    "which timeout MUST fire: pool wait -> connect,total; DNS -> connect,total; socket connect -> sock_connect,connect,total; "
    "request write stall -> total (sock_read may fire earlier); response stalls -> sock_read,total",
    "a cancelled exchange whose response had already arrived completely may leave its connection pooled; the follow-up request decides",
    "websocket close timeouts are covered by C13",
]

warnings.simplefilter("ignore")

BIG = b"x" * 300_000
RESP_CL = b"HTTP/1.1 200 OK\r\nContent-Type: text/plain\r\nContent-Length: 11\r\n\r\nhello world"
RESP_CH = b"HTTP/1.1 200 OK\r\nContent-Type: text/plain\r\nTransfer-Encoding: chunked\r\n\r\n5\r\nhello\r\n6\r\n world\r\n0\r\n\r\n"
RESP_INTERIM = b"HTTP/1.1 102 Processing\r\nX-Progress: 1\r\n\r\nHTTP/1.1 103 Early Hints\r\nLink: </s.css>\r\n\r\n" + RESP_CL
BODY = b"hello world"
BIG_N = 1_500_000
RESP_BIG = b"HTTP/1.1 200 OK\r\nContent-Type: application/octet-stream\r\nContent-Length: %d\r\n\r\n" % BIG_N + b"z" * BIG_N
RESP_EOF = b"HTTP/1.1 200 OK\r\nContent-Type: text/plain\r\nConnection: close\r\n\r\nhello world"  # body ends when the peer closes
SHAPES = {"cl": RESP_CL, "chunked": RESP_CH, "interim": RESP_INTERIM, "big": RESP_BIG, "eof": RESP_EOF}


def ceil_bound(x: float) -> float:
    return x + 1.0 if x > 5 else x


class ServerPeer(memnet.ScriptPeer):
    """Origin server: answers each complete request; per-connection script may cut the response or never read."""

    def __init__(self, world: "World", idx: int) -> None:
        super().__init__()
        self.world = world
        self.idx = idx
        self.buf = b""
        self.requests = 0

    def data_received(self, data: bytes) -> None:
        self.buf += data
        while True:
            k = self.buf.find(b"\r\n\r\n")
            if k < 0:
                return
            head = self.buf[:k].decode("latin1")
            n = 0
            chunked = False
            for line in head.split("\r\n")[1:]:
                name, _, v = line.partition(":")
                if name.lower() == "content-length":
                    n = int(v.strip())
                if name.lower() == "transfer-encoding" and "chunked" in v.lower():
                    chunked = True
            rest = self.buf[k + 4:]
            if self.world.case.get("early") and " /main " in head.split("\r\n")[0] and not getattr(self, "early_done", False):
                # answer as soon as the head is in, without reading the body (e.g. a server refusing an upload)
                self.early_done = True
                self.world.served.append((self.idx, "/main(early)"))
                self.send(RESP_CL)
                self.transport.pause_reading()
                return
            if chunked:
                e = rest.find(b"0\r\n\r\n")
                if e < 0:
                    return
                self.buf = rest[e + 5:]
            else:
                if len(rest) < n:
                    return
                self.buf = rest[n:]
            self.requests += 1
            self.world.on_request(self, head)


class World:
    def __init__(self, case: dict) -> None:
        self.case = case
        self.loop = new_loop()
        self.peers: list[ServerPeer] = []
        self.transports: list[tuple] = []
        self.dns_gate: asyncio.Future | None = None
        self.dns_calls = 0
        self.sock_gate: asyncio.Future | None = None
        self.sock_calls = 0
        self.patched: list = []
        self.served: list = []
        self.stall_active = True
        self.last_planned = 0.0

    # ---- scripted network
    def install(self) -> None:
        import aiohappyeyeballs

        import aiohttp.connector as cm

        w = self
        loop = self.loop
        case = self.case

        async def start_connection(addr_infos, **kw):
            idx = w.sock_calls
            w.sock_calls += 1
            if case.get("stall") == "sock_connect" and idx == 0 and w.stall_active:
                w.sock_gate = loop.create_future()
                await w.sock_gate
            return ("fake-sock", idx)

        async def create_connection(loop_, factory, *args, sock=None, **kw):
            proto = factory()
            idx = len(w.peers)
            peer = ServerPeer(w, idx)
            w.peers.append(peer)
            ct, st_ = memnet.connect_protocols(loop, [], proto, peer, name=f"conn{idx}")
            w.transports.append((ct, st_))
            if case.get("stall") == "write" and idx == 0 and w.stall_active:
                st_.pause_reading()
            return ct, proto

        self.patched = [(aiohappyeyeballs, "start_connection", aiohappyeyeballs.start_connection), (cm, "create_connection", cm.create_connection)]
        aiohappyeyeballs.start_connection = start_connection
        cm.create_connection = create_connection

    def uninstall(self) -> None:
        for obj, name, orig in self.patched:
            setattr(obj, name, orig)

    def resolver(self):
        from aiohttp.abc import AbstractResolver

        w = self

        class Scripted(AbstractResolver):
            async def resolve(self, host, port=0, family=0):
                idx = w.dns_calls
                w.dns_calls += 1
                if w.case.get("stall") == "dns" and idx == 0 and w.stall_active:
                    w.dns_gate = w.loop.create_future()
                    await w.dns_gate
                return [{"hostname": host, "host": "10.0.0.%d" % (1 + idx % 200), "port": port, "family": 2, "proto": 0, "flags": 0}]

            async def close(self):
                pass

        return Scripted()

    def on_request(self, peer: ServerPeer, head: str) -> None:
        case = self.case
        target = head.split(" ")[1]
        self.served.append((peer.idx, target))
        resp = SHAPES[case.get("shape") or "cl"] if (target == "/main" or case.get("shape") not in ("big", "eof")) else RESP_CL
        if target.startswith("/hold"):
            # headers now, body when released
            peer.send(b"HTTP/1.1 200 OK\r\nContent-Length: 4\r\n\r\n")
            self.hold_peer = peer
            return
        if case.get("early") and False:
            pass
        if case.get("stall") == "response" and target == "/main" and self.stall_active:
            cut = case["cut"]
            segs = case.get("segs") or [cut]
            pos = 0
            delay = case.get("seg_delay", 0.0)
            for i, s in enumerate(segs):
                piece = resp[pos:s]
                pos = s
                if delay and i:
                    self.loop.call_later(delay * i, lambda p=piece: (peer.send(p), setattr(self, "last_data", self.loop.time())))
                else:
                    peer.send(piece)
            self.last_planned = delay * (len(segs) - 1) if delay else 0.0
            return
        peer.send(resp)
        if resp is RESP_EOF and peer.transport is not None:
            peer.transport.close()  # the close that delimits the body

    def main_conn_idx(self) -> int:
        return 1 if self.case.get("holder") else 0


def timeouts_for(case: dict):
    from aiohttp import ClientTimeout

    kw = {"total": None, "connect": None, "sock_connect": None, "sock_read": None}
    for k, v in case.get("timeouts", {}).items():
        kw[k] = v
    return ClientTimeout(**kw)


MUST = {
    "pool": ("connect", "total"),
    "dns": ("connect", "total"),
    "sock_connect": ("sock_connect", "connect", "total"),
    "write": ("total",),
    "response": ("sock_read", "total"),
}


def run_case(case: dict) -> dict:
    import aiohttp

    w = World(case)
    loop = w.loop
    out: dict = {"events": []}
    try:
        asyncio.set_event_loop(loop)
        w.install()
        known_tasks: set = set()

        def spawn(coro, name):
            t = loop.create_task(coro, name=name)
            known_tasks.add(t)
            return t

        conn_box: dict = {}

        async def make_session():
            conn = aiohttp.TCPConnector(resolver=w.resolver(), limit=1 if case.get("holder") else 10, use_dns_cache=True, ttl_dns_cache=1000)
            conn_box["conn"] = conn
            skw = {}
            if case.get("trace_await"):
                # tracing callbacks that await (logging to a queue, metrics): more points where the caller can be
                # cancelled, some of them after the response head has arrived
                tc = aiohttp.TraceConfig()

                async def slow_cb(session_, ctx, params):
                    for _ in range(3):
                        await asyncio.sleep(0)

                tc.on_request_start.append(slow_cb)
                tc.on_request_end.append(slow_cb)
                tc.on_request_exception.append(slow_cb)
                skw["trace_configs"] = [tc]
            if case.get("rfs_await"):
                async def rfs(resp_):
                    for _ in range(3):
                        await asyncio.sleep(0)

                skw["raise_for_status"] = rfs
            conn_box["session"] = aiohttp.ClientSession(connector=conn, timeout=aiohttp.ClientTimeout(total=None), **skw)

        loop.drive(make_session(), max_time=10)
        session = conn_box["session"]
        conn = conn_box["conn"]
        res: dict = {}

        async def request(tag: str, path: str, timeout=None, data=None):
            t0 = loop.time()
            try:
                kw = {}
                if timeout is not None:
                    kw["timeout"] = timeout
                if data is not None:
                    kw["data"] = data
                async with session.request("POST" if data is not None else "GET", "http://origin.test" + path, **kw) as resp:
                    if tag == "main" and case.get("consumer_wait"):
                        # a slow consumer: the unread body piles up past the high-water mark and reading is paused
                        await asyncio.sleep(case["consumer_wait"])
                        res["resumed_at"] = loop.time() - t0
                    body = await resp.read()
                    res[tag] = ("ok", resp.status, body if len(body) < 100 else (len(body), body[:8]), loop.time() - t0)
            except asyncio.CancelledError:
                res[tag] = ("cancelled", None, None, loop.time() - t0)
                raise
            except BaseException as e:  # noqa: BLE001
                res[tag] = ("exc", e, None, loop.time() - t0)

        holder = None
        if case.get("holder"):
            # occupies the only pool slot: response headers received, body withheld
            async def hold():
                try:
                    async with session.get("http://origin.test/hold") as resp:
                        res["holder-started"] = True
                        body = await resp.read()
                        res["holder"] = ("ok", resp.status, body)
                except BaseException as e:  # noqa: BLE001
                    res["holder"] = ("exc", e, None)

            holder = spawn(hold(), "holder")
            loop.run_until_idle()
            if not res.get("holder-started"):
                raise AssertionError("harness: holder did not start")

        data = BIG if case.get("big_body") or case.get("stall") == "write" else None
        if case.get("file_body"):
            # a file object as the body: read and closed through the executor, each a point where the caller can be cancelled
            import tempfile

            data = tempfile.TemporaryFile()
            data.write(b"y" * 5000)
            data.seek(0)

            def run_in_executor(executor, func, *args):
                # the result arrives an iteration later, as from a real executor: the caller is suspended meanwhile
                fut = loop.create_future()
                try:
                    r, e = func(*args), None
                except BaseException as exc:  # noqa: BLE001
                    r, e = None, exc
                loop.call_soon(lambda: fut.done() or (fut.set_exception(e) if e is not None else fut.set_result(r)))
                return fut

            loop.run_in_executor = run_in_executor  # type: ignore[method-assign]
        t_start = loop.time()
        bystander = None
        if case.get("bystander") and case.get("by_first"):
            # the bystander owns the pool queue head / the DNS lookup; the faulted request is the one that joins
            bystander = spawn(request("by", "/by", None, None), "bystander")
            loop.step()
        main = spawn(request("main", "/main", timeouts_for(case), data), "main")
        by_late = case.get("bystander") and case.get("by_when") == "after_fault"
        if case.get("bystander") and not case.get("by_first") and not by_late:
            loop.step()
            bystander = spawn(request("by", "/by", None, None), "bystander")
        late: dict = {}

        def spawn_late(*_a) -> None:
            # a request for the same host issued right after the faulted one ended (a retry, the next item of a work queue):
            # whatever the faulted request shared - the DNS lookup still unwinding, the pool queue - must serve it
            if "t" not in late:
                late["t"] = spawn(request("by", "/by", None, None), "bystander")

        mode = case["mode"]
        if by_late and mode == "timeout":
            main.add_done_callback(spawn_late)
        if mode == "timeout":
            loop.run_until_idle()
            # let time pass until main finishes (or far beyond every bound)
            far = 3 * max([10.0] + list(case.get("timeouts", {}).values()))
            limit = loop.time() + far
            while not main.done():
                nt = loop.next_timer()
                if nt is None or nt > limit:
                    break
                loop.advance(max(0.0, nt - loop.time()))
            out["main_done"] = main.done()
            if not main.done():
                # no configured timeout covers the stalled phase (or it failed to fire: judged by the caller); clear the stage by cancelling
                out["pending_after_wait"] = True
                main.cancel()
                loop.run_until_idle()
        else:
            k = case["k"]
            for _ in range(k):
                if main.done():
                    break
                loop.step()
            out["done_before_cancel"] = main.done()

            def release_gates() -> None:
                w.stall_active = False
                for g in (w.dns_gate, w.sock_gate):
                    if g is not None and not g.done():
                        g.set_result(None)

            rel = case.get("release")  # the stalled step completes in the same loop iteration as the cancellation
            if rel == "answer-then-cancel":
                release_gates()
            if not main.done():
                main.cancel()
            if rel == "cancel-then-answer":
                release_gates()
            if by_late:
                for _ in range(case.get("by_lag", 0)):
                    loop.step()
                spawn_late()
            loop.run_until_idle()
            out["main_done"] = main.done()
        if by_late:
            bystander = late.get("t")
        out["t_fail"] = res.get("main", (None, None, None, None))[3]
        out["main"] = res.get("main")
        out["main_transport_closed_at_fault"] = None
        if main.done():
            mi0 = w.main_conn_idx()
            if case.get("stall") == "response" and len(w.transports) > mi0 and res.get("main") is not None and res["main"][0] != "ok" and (mi0, "/main") in w.served:
                # the peer is still withholding the rest of the response: that connection cannot be clean, and nothing
                # that arrives later may be what closes it
                out["main_transport_closed_at_fault"] = w.transports[mi0][0].closing or w.transports[mi0][0].closed
            # with the peer still stalled: nothing the request started may still be running
            # (the shared, shielded DNS lookup is the documented exception: other requests may be waiting for it)
            out["tasks_at_fault"] = sorted(
                t.get_name() + ":" + getattr(t.get_coro(), "__qualname__", "?") for t in asyncio.all_tasks(loop)
                if not t.done() and t not in known_tasks and "_resolve_host_with_throttle" not in getattr(t.get_coro(), "__qualname__", ""))

        # ---- release the gates / the holder, let everything settle
        w.stall_active = False
        if w.dns_gate is not None and not w.dns_gate.done():
            w.dns_gate.set_result(None)
        if w.sock_gate is not None and not w.sock_gate.done():
            w.sock_gate.set_result(None)
        for ct, st_ in w.transports:
            if st_.reading_paused:
                st_.resume_reading()
        loop.run_until_idle()
        mi = w.main_conn_idx()
        if case.get("stall") in ("write", "response") and len(w.transports) > mi and res.get("main") is not None and res["main"][0] != "ok" and (mi, "/main") in w.served or (
                case.get("stall") == "write" and len(w.transports) > mi and res.get("main") is not None and res["main"][0] != "ok"):
            out["stalled_transport_closed"] = w.transports[mi][0].closing or w.transports[mi][0].closed
        if holder is not None:
            w.hold_peer.send(b"held")
            loop.run_until_idle()
        loop.advance(0.0)
        loop.run_until_idle()
        if bystander is not None:
            # the bystander gets what it needs now; give it (virtual) time
            for _ in range(5):
                if bystander.done():
                    break
                loop.advance(1.0)
            out["bystander_done"] = bystander.done()
            out["by"] = res.get("by")
        out["holder"] = res.get("holder")
        out["acquired"] = len(conn._acquired)
        out["waiters"] = sum(len(v) for v in conn._waiters.values())
        out["leftover_tasks"] = sorted(t.get_name() + ":" + getattr(t.get_coro(), "__qualname__", "?") for t in asyncio.all_tasks(loop) if not t.done())
        # ---- follow-up on the same session
        fu = spawn(request("fu", "/fu", aiohttp.ClientTimeout(total=60), None), "followup")
        for _ in range(70):
            loop.run_until_idle()
            if fu.done():
                break
            loop.advance(1.0)
        out["fu_done"] = fu.done()
        out["fu"] = res.get("fu")
        out["acquired_end"] = len(conn._acquired)
        out["exc_contexts"] = [str(c.get("message"))[:80] + "/" + type(c.get("exception")).__name__ for c in loop.exc_contexts]
        out["open_transports"] = [i for i, (ct, _) in enumerate(w.transports) if not (ct.closing or ct.closed)]
        out["served"] = w.served
        out["last_planned"] = w.last_planned

        async def fin():
            await session.close()

        try:
            loop.drive(fin(), max_time=100)
        except BaseException:  # noqa: BLE001
            pass
        return out
    finally:
        w.uninstall()
        asyncio.set_event_loop(None)
        loop.shutdown()


def check_case(rec: Rec, case: dict) -> None:
    out = run_case(case)
    desc = f"main={_r(out.get('main'))} by={_r(out.get('by'))} fu={_r(out.get('fu'))} leftover={out.get('leftover_tasks')} served={out.get('served')}; case={case}"
    mode = case["mode"]
    stall = case.get("stall")
    eff = timeouts_for(case)  # ClientTimeout raises total to the largest specific timeout: judge by the effective values
    tos = {k: getattr(eff, k) for k in KINDS if case.get("timeouts", {}).get(k) is not None and getattr(eff, k) is not None}
    labels = [mode, f"stall:{stall}"]
    if mode == "timeout":
        must = [tos[k] for k in MUST.get(stall, ()) if k in tos]
        m = out.get("main")
        if must:
            bound = min(ceil_bound(x) for x in must)
            if m is None or not out["main_done"] or out.get("pending_after_wait"):
                raise Violation(f"no-timeout/{stall}", f"the request is still pending long after its {sorted(tos)} timeout ({bound}s); {desc}")
            if m[0] == "ok":
                raise Violation(f"no-timeout/{stall}", f"the request completed although the peer stalled; {desc}")
            if m[0] == "exc":
                if not isinstance(m[1], asyncio.TimeoutError):
                    raise Violation(f"wrong-error/{stall}", f"expected a timeout error, got {type(m[1]).__name__}: {m[1]}; {desc}")
                lp = out.get("last_planned", 0.0) if set(tos) == {"sock_read"} else 0.0  # sock_read counts from the last byte received
                if case.get("consumer_wait") and set(tos) == {"sock_read"}:
                    lp = case["consumer_wait"]  # ... or from the moment a paused reader resumes
                if m[3] > lp + bound + 1e-6:
                    raise Violation(f"timeout-late/{stall}", f"timed out after {m[3]:.3f}s, bound {bound}s after the last progress at {lp}s ({tos}); {desc}")
                if m[3] < lp + min(tos.values()) - 1e-6:
                    raise Violation(f"timeout-early/{stall}", f"timed out after {m[3]:.3f}s, before the smallest configured timeout {min(tos.values())} had passed since the last progress at {lp}s; {desc}")
            labels.append("fired:" + (type(m[1]).__name__ if m and m[0] == "exc" else "none"))
        else:
            labels.append("no-covering-timeout")
    else:
        m = out.get("main")
        if not out["main_done"]:
            raise Violation("cancel-ignored", f"the cancelled request task is still pending; {desc}")
        labels.append("cancel:" + (m[0] if m else "before-start"))
    # ---- residue
    if out.get("main_transport_closed_at_fault") is False:
        raise Violation(f"connection-open-at-fault/{mode}", f"the request failed / was cancelled while the peer withheld the rest of its response, "
                        f"yet its connection is still open (and counted as in use) at that moment; {desc}")
    if out.get("stalled_transport_closed") is False:
        raise Violation(f"stalled-connection-not-closed/{mode}", f"the connection of the failed exchange is still open (it would be reused half-way through an exchange); {desc}")
    if out["acquired"]:
        raise Violation(f"slot-leak/{mode}", f"{out['acquired']} connection(s) still acquired after the fault and after everything else finished; {desc}")
    if out["waiters"]:
        raise Violation(f"waiter-leak/{mode}", f"{out['waiters']} pool waiter(s) left behind; {desc}")
    if out.get("tasks_at_fault"):
        raise Violation(f"task-leak-at-fault/{mode}", f"task(s) started by the request still running after it failed / was cancelled: {out['tasks_at_fault']}; {desc}")
    left = [t for t in out["leftover_tasks"] if not t.startswith(("holder:", "bystander:", "main:"))]
    if left:
        raise Violation(f"task-leak/{mode}", f"background task(s) still pending: {left}; {desc}")
    if case.get("bystander"):
        b = out.get("by")
        if not out.get("bystander_done") or b is None:
            raise Violation(f"bystander-stuck/{stall or 'none'}", f"the bystander request never completed after the other request failed; {desc}")
        if b[0] != "ok" or b[2] != BODY:
            raise Violation(f"bystander-failed/{stall or 'none'}", f"the bystander request was failed or cancelled along with the other one: {_r(b)}; {desc}")
    if case.get("holder"):
        h = out.get("holder")
        if h is None or h[0] != "ok" or h[2] != b"held":
            raise Violation("holder-disturbed", f"the request holding the pool slot was disturbed: {_r(h)}; {desc}")
    f = out.get("fu")
    if not out["fu_done"] or f is None or f[0] != "ok" or f[2] != BODY:
        raise Violation(f"session-unusable/{mode}", f"a follow-up request on the same session did not succeed: {_r(f)}; {desc}")
    if out["acquired_end"]:
        raise Violation(f"slot-leak/{mode}", f"{out['acquired_end']} connection(s) still acquired at the end; {desc}")
    if out["exc_contexts"]:
        labels.append("loop-exception")
    rec.case(case, True, labels)


def _r(x):
    if x is None:
        return None
    return (x[0], type(x[1]).__name__ if isinstance(x[1], BaseException) else x[1]) + tuple(x[2:])


# ----------------------------------------------------------------------------------------------------------------------

VALUES = [0.5, 4.9, 5, 7.3]
KINDS = ["total", "connect", "sock_connect", "sock_read"]


def stall_cases(tier: str) -> list[dict]:
    out = []
    vals = VALUES if tier == "thorough" else [0.5, 7.3]
    for stall in ("pool", "dns", "sock_connect", "write"):
        for kind in KINDS:
            for v in vals:
                for by in (False, True):
                    if stall == "write" and by:
                        continue
                    c = {"mode": "timeout", "stall": stall, "timeouts": {kind: v}, "bystander": by}
                    if stall == "pool":
                        c["holder"] = True
                    out.append(c)
    # two timeouts at once: the smaller covering one must win
    for stall in ("dns", "sock_connect", "pool"):
        c = {"mode": "timeout", "stall": stall, "timeouts": {"total": 7.3, "connect": 0.5}, "bystander": True}
        if stall == "pool":
            c["holder"] = True
        out.append(c)
    for shape, resp in (("cl", RESP_CL), ("chunked", RESP_CH), ("interim", RESP_INTERIM), ("eof", RESP_EOF)):
        cuts = range(0, len(resp)) if tier == "thorough" else sorted(set(list(range(0, len(resp), 3)) + [len(resp) - 1, resp.find(b"\r\n\r\n") + 4, resp.find(b"\r\n\r\n") + 2]))
        for cut in cuts:
            for kind in ("sock_read", "total", "connect", "sock_connect"):
                if kind in ("connect", "sock_connect") and cut % 9:
                    continue
                for v in ([0.5, 7.3] if tier == "thorough" else [0.5 if cut % 2 else 7.3]):
                    out.append({"mode": "timeout", "stall": "response", "shape": shape, "cut": cut, "timeouts": {kind: v}})
    for shape, resp in SHAPES.items():
        for v in (0.5, 7.3):
            for cut in (20, len(resp) - 3):
                out.append({"mode": "timeout", "stall": "response", "shape": shape, "cut": cut, "segs": [5, 12, cut], "seg_delay": 0.8 * v, "timeouts": {"sock_read": v}})
    for kind, v in (("total", 0.5), ("sock_read", 0.5), ("total", 7.3)):
        out.append({"mode": "timeout", "stall": "write", "early": True, "timeouts": {kind: v}})
    # slow consumer: reading paused by back-pressure, the peer stalls meanwhile, the consumer drains and waits
    for v in (0.5, 7.3):
        for cut in (700_000, 1_200_000):
            for wait in (1.0, 3.0):
                out.append({"mode": "timeout", "stall": "response", "shape": "big", "cut": cut, "consumer_wait": wait, "timeouts": {"sock_read": v}})
    return out


def unit_stalls(rec: Rec, shard: int, nshards: int) -> None:
    rec.exhaustive = True
    for i, case in enumerate(stall_cases(rec.tier)):
        if i % nshards != shard:
            continue
        if rec.expired():
            rec.exhaustive = False
            return
        try:
            check_case(rec, case)
        except Violation as v:
            if rec.is_known(v.key):
                rec.known_hits[v.key] += 1
                continue
            if v.key in rec.muted:
                continue
            rec.fail(v.key, v.msg, case)
            rec.muted.add(v.key)


def cancel_shapes() -> list[dict]:
    return [
        {"mode": "cancel", "shape": "cl"},
        {"mode": "cancel", "shape": "chunked", "big_body": True},
        {"mode": "cancel", "shape": "cl", "holder": True, "bystander": True},
        {"mode": "cancel", "shape": "cl", "stall": "dns", "bystander": True},
        {"mode": "cancel", "shape": "cl", "stall": "sock_connect"},
        {"mode": "cancel", "shape": "chunked", "stall": "response", "cut": 60},
        {"mode": "cancel", "shape": "cl", "stall": "write"},
        {"mode": "cancel", "shape": "interim"},
        {"mode": "cancel", "shape": "cl", "stall": "write", "early": True},
        {"mode": "cancel", "shape": "cl", "stall": "dns", "bystander": True, "by_first": True},
        {"mode": "cancel", "shape": "cl", "stall": "dns", "bystander": True, "by_first": True, "release": "answer-then-cancel"},
        {"mode": "cancel", "shape": "cl", "stall": "dns", "bystander": True, "by_first": True, "release": "cancel-then-answer"},
        {"mode": "cancel", "shape": "cl", "stall": "dns", "bystander": True, "release": "answer-then-cancel"},
        {"mode": "cancel", "shape": "cl", "stall": "sock_connect", "bystander": True, "release": "answer-then-cancel"},
        {"mode": "cancel", "shape": "cl", "holder": True, "bystander": True, "by_first": True},
        {"mode": "cancel", "shape": "cl", "stall": "dns", "bystander": True, "by_when": "after_fault", "by_lag": 0},
        {"mode": "cancel", "shape": "cl", "stall": "dns", "bystander": True, "by_when": "after_fault", "by_lag": 1},
        {"mode": "cancel", "shape": "cl", "stall": "dns", "bystander": True, "by_when": "after_fault", "by_lag": 2},
        {"mode": "cancel", "shape": "cl", "holder": True, "bystander": True, "by_when": "after_fault", "by_lag": 0},
        {"mode": "cancel", "shape": "cl", "stall": "sock_connect", "bystander": True, "by_when": "after_fault", "by_lag": 0},
        {"mode": "cancel", "shape": "eof", "stall": "response", "cut": 70},
        {"mode": "cancel", "shape": "eof"},
        {"mode": "cancel", "shape": "cl", "file_body": True},
        {"mode": "cancel", "shape": "chunked", "stall": "response", "cut": 80, "file_body": True},
        {"mode": "cancel", "shape": "chunked", "stall": "response", "cut": 80},
        {"mode": "cancel", "shape": "chunked", "stall": "response", "cut": 80, "trace_await": True},
        {"mode": "cancel", "shape": "chunked", "stall": "response", "cut": 80, "rfs_await": True},
        {"mode": "cancel", "shape": "cl", "trace_await": True, "bystander": True, "by_when": "after_fault", "by_lag": 1},
        {"mode": "cancel", "shape": "big", "file_body": True},
        {"mode": "cancel", "shape": "chunked", "file_body": True, "bystander": True, "by_when": "after_fault", "by_lag": 1},
    ]


def unit_cancel(rec: Rec, shape: dict, kmax: int) -> None:
    rec.exhaustive = True
    for k in range(0, kmax):
        if rec.expired():
            rec.exhaustive = False
            return
        case = dict(shape, k=k)
        try:
            out_done = check_case(rec, case)
        except Violation as v:
            if rec.is_known(v.key):
                rec.known_hits[v.key] += 1
                continue
            if v.key in rec.muted:
                continue
            rec.fail(v.key, v.msg, case)
            rec.muted.add(v.key)


@st.composite
def sampled_cases(draw):
    mode = draw(st.sampled_from(["timeout", "cancel"]))
    stall = draw(st.sampled_from([None, "pool", "dns", "sock_connect", "write", "response", "response"]))
    shape = draw(st.sampled_from(["cl", "chunked", "interim", "eof"]))
    case: dict = {"mode": mode, "shape": shape}
    if stall:
        case["stall"] = stall
    if stall == "pool":
        case["holder"] = True
    if stall == "response":
        resp = SHAPES[shape]
        cut = draw(st.integers(0, len(resp) - 1))
        case["cut"] = cut
        segs = sorted(set(draw(st.lists(st.integers(1, max(1, cut)), max_size=3)) + [cut]))
        case["segs"] = segs
    if stall in ("pool", "dns", "sock_connect", None) and draw(st.booleans()):
        case["bystander"] = True
    if stall in (None, "response") and draw(st.booleans()):
        case["big_body"] = True
    if mode == "timeout":
        if stall is None:
            case["stall"] = "response"
            case["cut"] = 10
        kinds = draw(st.lists(st.sampled_from(KINDS), min_size=1, max_size=3, unique=True))
        case["timeouts"] = {k: draw(st.sampled_from(VALUES + [1.0, 12.0])) for k in kinds}
    else:
        case["k"] = draw(st.integers(0, 60))
        if stall in ("dns", "sock_connect"):
            case["release"] = draw(st.sampled_from([None, "answer-then-cancel", "cancel-then-answer"]))
    if case.get("bystander") and stall in ("dns", "pool"):
        case["by_first"] = draw(st.booleans())  # only a shared lookup / queue makes the order matter
    if case.get("bystander") and not case.get("by_first") and draw(st.integers(0, 2)) == 0:
        case["by_when"] = "after_fault"
        case["by_lag"] = draw(st.integers(0, 3))
    return case


def proxy_cases() -> list[dict]:
    out = []
    for kind in ("refuse407", "refuse403-body", "refuse502-close"):
        out.append({"proxy": kind, "end": "error"})
    for end in ("total", "connect", "sock_read"):
        out.append({"proxy": "silent", "end": "timeout", "timeouts": {end: 0.5}})
    for k in (0, 1, 2, 3, 5, 8, 12):
        out.append({"proxy": "silent", "end": "cancel", "k": k})
        out.append({"proxy": "silent", "end": "connector-close", "k": k})
    return out


def check_proxy(rec: Rec, case: dict) -> None:
    """https through an HTTP proxy: the CONNECT exchange with the proxy is a phase of its own in which the proxy can refuse,
    stall, or the caller can give up.  Whatever happens, the connection to the proxy does not outlive the request and the
    connector's close()."""
    import aiohttp

    w = World({"stall": None})
    loop = w.loop
    out: dict = {}
    try:
        asyncio.set_event_loop(loop)
        w.install()
        kind = case["proxy"]

        def on_request(peer, head: str) -> None:
            w.served.append((peer.idx, head.split(" ")[0]))
            if kind == "refuse407":
                peer.send(b"HTTP/1.1 407 Proxy Authentication Required\r\nProxy-Authenticate: Basic realm=x\r\nContent-Length: 0\r\n\r\n")
            elif kind == "refuse403-body":
                peer.send(b"HTTP/1.1 403 Forbidden\r\nContent-Length: 6\r\n\r\ndenied")
            elif kind == "refuse502-close":
                peer.send(b"HTTP/1.1 502 Bad Gateway\r\nConnection: close\r\nContent-Length: 0\r\n\r\n")
            # "silent": the proxy accepts the connection and never answers the CONNECT

        w.on_request = on_request  # type: ignore[method-assign]

        async def go():
            conn = aiohttp.TCPConnector(resolver=w.resolver())
            session = aiohttp.ClientSession(connector=conn, timeout=aiohttp.ClientTimeout(total=None))
            tkw = {"total": None, "connect": None, "sock_connect": None, "sock_read": None}
            tkw.update(case.get("timeouts", {}))

            async def req():
                async with session.get("https://secure.test/x", proxy="http://proxy.test:3128", timeout=aiohttp.ClientTimeout(**tkw)) as resp:
                    return resp.status

            t = loop.create_task(req())
            if case["end"] in ("cancel", "connector-close"):
                for _ in range(case["k"]):
                    await asyncio.sleep(0)
                if case["end"] == "cancel":
                    t.cancel()
                else:
                    await conn.close()
                    t.cancel()
            try:
                out["result"] = await asyncio.wait_for(asyncio.shield(t), 30)
            except asyncio.CancelledError:
                out["result"] = "cancelled"
            except asyncio.TimeoutError as e:
                out["result"] = "timeout" if t.done() else "hang"
                if not t.done():
                    t.cancel()
            except BaseException as e:  # noqa: BLE001
                out["result"] = type(e).__name__
            for _ in range(5):
                await asyncio.sleep(0)
            out["open_after_request"] = [ct.name for ct, _st in w.transports if not ct.closing]
            await session.close()
            for _ in range(5):
                await asyncio.sleep(0)
            out["open_after_close"] = [ct.name for ct, _st in w.transports if not ct.closing]
            out["leftover"] = sorted(tk.get_name() for tk in asyncio.all_tasks(loop) if not tk.done() and tk is not asyncio.current_task())

        loop.drive(go(), max_time=500)
    finally:
        w.uninstall()
        asyncio.set_event_loop(None)
        loop.shutdown()
    desc = f"case={case} result={out.get('result')} served={w.served}"
    if out.get("result") == "hang":
        raise Violation("proxy/request-hangs", f"the request did not end within 30 s; {desc}")
    if case["end"] == "error" and out.get("result") != "ClientHttpProxyError":
        raise Violation("proxy/wrong-outcome", f"a refused CONNECT must surface as ClientHttpProxyError; {desc}")
    if case["end"] == "timeout" and out.get("result") != "timeout":
        raise Violation("proxy/no-timeout", f"a proxy that never answers CONNECT: the request must time out; {desc}")
    if out.get("open_after_close"):
        raise Violation("proxy/connection-open-after-close", f"connection(s) {out['open_after_close']} to the proxy still open after the request ended and the session/connector "
                        f"was closed; {desc}")
    if out.get("open_after_request"):
        raise Violation("proxy/connection-open-after-request", f"connection(s) {out['open_after_request']} to the proxy still open after the request ended; {desc}")
    if out.get("leftover"):
        raise Violation("proxy/task-left", f"tasks still running: {out['leftover']}; {desc}")
    rec.case(case, True, ["proxy:" + case["proxy"], "end:" + case["end"]])


def unit_proxy(rec: Rec) -> None:
    rec.exhaustive = True
    for case in proxy_cases():
        try:
            check_proxy(rec, case)
        except Violation as v:
            if rec.is_known(v.key):
                rec.known_hits[v.key] += 1
                continue
            if v.key in rec.muted:
                continue
            rec.fail(v.key, v.msg, case)
            rec.muted.add(v.key)


def unit_sampled(rec: Rec, n: int, offset: int) -> None:
    hyp.run(rec, sampled_cases(), check_case, n, seed_offset=offset, max_root_causes=6)


def units(tier: str, seed: int) -> list[Unit]:
    us = []
    nsh = 6 if tier == "quick" else 16
    for sh in range(nsh):
        us.append(Unit(f"stalls-{sh}", unit_stalls, {"shard": sh, "nshards": nsh}))
    for i, shape in enumerate(cancel_shapes()):
        us.append(Unit(f"cancel-{i}", unit_cancel, {"shape": shape, "kmax": 45 if tier == "quick" else 120}))
    us.append(Unit("proxy-connect", unit_proxy, {}))
    n = 600 if tier == "quick" else 25000
    for i in range(6 if tier == "quick" else 12):
        us.append(Unit(f"sampled{i}", unit_sampled, {"n": n, "offset": i}))
    return us


def replay(rec: Rec, case: dict) -> None:
    if "proxy" in case:
        check_proxy(rec, case)
        return
    check_case(rec, case)
