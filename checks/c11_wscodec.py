"""C11 WebSocket codec round trip: WebSocketWriter -> bytes -> WebSocketReader."""
from __future__ import annotations

import asyncio
import hashlib
import random as _random

from hypothesis import strategies as st

from vlib import hyp, refws
from vlib.detloop import new_loop
from vlib.runner import Rec, Unit, Violation

PROPERTY = "C11"
LEVEL = "exploration"
RULE = (
    "case = (use_mask, compress wbits 0|9..15, notakeover, 1-3 sender tasks each with a message list "
    "(text/binary/ping/pong/close; sizes around 125/126/65535/65536/16384/1MiB; random or compressible content; "
    "optional per-message compress override), executor timing, optional cancellation of a sender after k loop "
    "iterations, wire segmentation).  Oracle: round trip through the real reader plus the independent refws decoder. "
    "Non-trivial = >=2 compressed messages sharing a deflate context, or a payload size on a length-encoding / "
    "sync-compression boundary, or several senders, or a cancellation.  distinct = canonical case."
)
ASSUMPTIONS = [
    "reader configured with compress=bool(negotiated wbits), as client_ws/web_ws do",
    "executor work is run by the harness either at submission or at completion time, completion delayed by a generated number of loop iterations (no real threads)",
    "random mask source replaced by a seeded random.Random",
]

BOUNDARY_SIZES = [0, 1, 125, 126, 127, 65535, 65536, 65537, 16383, 16384, 16385]
KINDS = ["text", "binary", "ping", "pong"]


class CapTransport:
    def __init__(self) -> None:
        self.chunks: list[bytes] = []
        self.closing = False

    def write(self, data) -> None:
        self.chunks.append(bytes(data))

    def writelines(self, it) -> None:
        for d in it:
            self.write(d)

    def is_closing(self) -> bool:
        return self.closing

    def close(self) -> None:
        self.closing = True

    def get_extra_info(self, *a, **k):
        return None

    def pause_reading(self) -> None:
        pass

    def resume_reading(self) -> None:
        pass


def content(tag: str, size: int, style: str, text: bool) -> bytes:
    """Deterministic payload of exactly `size` bytes that starts with the tag when it fits."""
    head = tag.encode()
    if size <= len(head):
        return head[:size]
    n = size - len(head)
    if style == "zeros":
        body = b"a" * n
    elif style == "shared":
        # the same incompressible-looking text in every message: the compressor refers back into EARLIER messages,
        # so a sender whose deflate window differs from the receiver's produces wrong bytes, not an error
        blob = hashlib.shake_128(b"shared").digest(1500).hex().encode()
        body = (blob * (n // len(blob) + 1))[:n]
    elif style == "pattern":
        unit = (tag + "-pattern-") .encode()
        body = (unit * (n // len(unit) + 1))[:n]
    else:
        raw = hashlib.shake_128(tag.encode()).digest((n + 1) // 2 if text else n)
        body = raw.hex().encode()[:n] if text else raw
    if text and style == "utf8" and n >= 3:
        body = ("é✓" * (n // 5 + 1)).encode()[: n - (n % 5)] + b"x" * (n % 5)
        body = body[:n]
        try:
            body.decode()
        except UnicodeDecodeError:
            body = b"y" * n
    return head + body


def build_payload(sender: int, idx: int, m: dict) -> tuple[int, bytes]:
    from aiohttp import WSMsgType

    kind = m["kind"]
    tag = f"{sender}.{idx}:"
    if kind == "text":
        return WSMsgType.TEXT, content(tag, m["size"], m["style"], True)
    if kind == "binary":
        return WSMsgType.BINARY, content(tag, m["size"], m["style"], False)
    if kind == "ping":
        return WSMsgType.PING, content(tag, min(m["size"], 125), m["style"], False)
    if kind == "pong":
        return WSMsgType.PONG, content(tag, min(m["size"], 125), m["style"], False)
    raise ValueError(kind)


def expect_msg(opcode: int, payload: bytes):
    from aiohttp import WSMsgType

    return {WSMsgType.TEXT: "text", WSMsgType.BINARY: "binary", WSMsgType.PING: "ping", WSMsgType.PONG: "pong"}[opcode], payload


def execute(case: dict) -> dict:
    from aiohttp import WSMsgType
    from aiohttp._websocket.reader_py import WebSocketDataQueue, WebSocketReader
    from aiohttp._websocket.writer import WebSocketWriter
    from aiohttp.base_protocol import BaseProtocol

    loop = new_loop()
    stats = {"shared_ctx": 0, "boundary": False, "cancelled": 0, "senders": len(case["senders"])}
    try:
        # executor timing owned by the harness
        mode, delay = case.get("exec_mode", "submit"), case.get("exec_delay", 0)

        def run_in_executor(executor, func, *args):
            fut = loop.create_future()
            box: dict = {}
            if mode == "submit":
                try:
                    box["r"] = func(*args)
                except BaseException as e:  # noqa: BLE001
                    box["e"] = e

            def deliver(k: int) -> None:
                if k > 0:
                    loop.call_soon(deliver, k - 1)
                    return
                if mode != "submit":
                    try:
                        box["r"] = func(*args)
                    except BaseException as e:  # noqa: BLE001
                        box["e"] = e
                if fut.done():
                    return
                if "e" in box:
                    fut.set_exception(box["e"])
                else:
                    fut.set_result(box["r"])

            loop.call_soon(deliver, delay)
            return fut

        loop.run_in_executor = run_in_executor  # type: ignore[method-assign]

        tr = CapTransport()
        proto = BaseProtocol(loop)
        proto.transport = tr  # type: ignore[assignment]
        w = WebSocketWriter(
            proto, tr,  # type: ignore[arg-type]
            use_mask=case["use_mask"], compress=case["compress"], notakeover=case["notakeover"],
            random=_random.Random(case.get("mask_seed", 7)),
            limit=case.get("limit", 2 ** 16),
        )
        sent_ok: list[list] = [[] for _ in case["senders"]]  # completed sends per sender
        attempted: list[list] = [[] for _ in case["senders"]]
        errors: list = []

        async def sender(i: int, msgs: list) -> None:
            for j, m in enumerate(msgs):
                if m["kind"] == "close":
                    code, reason = m["code"], m["reason"].encode()
                    attempted[i].append(("close", code, m["reason"]))
                    await w.close(code, reason)
                    sent_ok[i].append(("close", code, m["reason"]))
                    continue
                opcode, payload = build_payload(i, j, m)
                exp = expect_msg(opcode, payload)
                attempted[i].append(exp)
                # the same bytes in one of the buffer types send_bytes() takes; the caller's buffer is the caller's: it must
                # read the same after the send (an application re-uses it for the next message or the next connection)
                bt = m.get("buf", "bytes")
                if bt == "memoryview16" and len(payload) % 2 == 0 and payload and opcode == WSMsgType.BINARY:
                    import array

                    a16 = array.array("H")
                    a16.frombytes(payload)
                    arg = memoryview(a16)  # 2-byte items: len() is half the size in bytes
                else:
                    arg = payload if bt in ("bytes", "memoryview16") else (bytearray(payload) if bt == "bytearray" else memoryview(bytearray(payload)))
                ov = m.get("override")
                for _rep in range(2 if m.get("twice") else 1):
                    if _rep:
                        attempted[i].append(exp)
                    if ov is not None:
                        await w.send_frame(arg, opcode, ov)
                    else:
                        await w.send_frame(arg, opcode)
                    if bytes(arg) != payload:
                        raise Violation("caller-buffer-modified", f"send_frame() changed the {bt} it was given ({len(payload)} bytes, mask={case['use_mask']}, "
                                        f"compress={case['compress']}): first difference at {next(k for k, (a, b) in enumerate(zip(bytes(arg), payload)) if a != b)}")
                    sent_ok[i].append(exp)

        tasks = [loop.create_task(sender(i, msgs)) for i, msgs in enumerate(case["senders"])]
        cancel_at = {int(k): v for k, v in (case.get("cancel") or {}).items()}
        # the transport's write buffer fills up and drains again at generated instants (pause_writing / resume_writing):
        # senders over the writer's limit wait in drain meanwhile
        stall = sorted((int(at), act) for at, act in (case.get("stall") or []))
        harness_cancelled: set = set()
        it = 0
        while not all(t.done() for t in tasks):
            for i, k in cancel_at.items():
                if k == it and not tasks[i].done():
                    tasks[i].cancel()
                    harness_cancelled.add(i)
                    stats["cancelled"] += 1
            for at, act in stall:
                if at == it:
                    stats["stalls"] = stats.get("stalls", 0) + 1
                    for a in act:
                        if a == "p" and not proto._paused:
                            proto.pause_writing()
                        elif a == "r" and proto._paused:
                            proto.resume_writing()
            if stall and it > stall[-1][0] + 40 and proto._paused:
                proto.resume_writing()  # the peer reads again in the end
            loop.step()
            it += 1
            if it > 20000:
                raise Violation("sender-hang", "sender tasks did not finish within 20000 loop iterations"
                                + (" although the transport accepts writes again" if stall else ""))
        loop.run_until_idle()
        for _ in range(delay + 3):
            loop.run_until_idle()
        bg = getattr(w, "_background_tasks", None)
        if bg:
            raise Violation("background-task-left", f"{len(bg)} shielded send task(s) still pending at quiescence")
        for i, t in enumerate(tasks):
            if t.cancelled():
                if i not in harness_cancelled:
                    raise Violation("sender-cancelled-by-another", f"sender {i} ended with CancelledError although nobody cancelled it "
                                    f"(cancelled by the harness: {sorted(harness_cancelled)}; stall schedule {stall})")
                continue
            e = t.exception()
            if e is not None:
                raise Violation(hyp.exc_key(e, "send-raised"), f"sender {i} raised {e!r}")

        wire = b"".join(tr.chunks)

        # ---- decode with the real reader under the generated segmentation
        rproto = BaseProtocol(loop)
        rproto.transport = CapTransport()  # type: ignore[assignment]
        rproto._upgraded = True
        q = WebSocketDataQueue(rproto, 2 ** 30, loop=loop)
        reader = WebSocketReader(q, 0, compress=bool(case["compress"]), decode_text=case.get("decode_text", True))
        cuts = sorted({c % (len(wire) + 1) for c in case.get("cuts", [])} - {0, len(wire)})
        prev = 0
        for c in cuts + [len(wire)]:
            err, _ = reader.feed_data(wire[prev:c])
            prev = c
            if err:
                break
        got = []
        while q._buffer:
            got.append(q._buffer.popleft())
        exc = q.exception()
        recv = []
        for msg in got:
            t = msg.type
            if t == WSMsgType.TEXT:
                d = msg.data
                recv.append(("text", d.encode("utf-8") if isinstance(d, str) else bytes(d)))
            elif t == WSMsgType.BINARY:
                recv.append(("binary", bytes(msg.data)))
            elif t == WSMsgType.PING:
                recv.append(("ping", bytes(msg.data)))
            elif t == WSMsgType.PONG:
                recv.append(("pong", bytes(msg.data)))
            elif t == WSMsgType.CLOSE:
                recv.append(("close", msg.data, msg.extra))
            else:
                recv.append((str(t), msg.data))
        if exc is not None:
            raise Violation("reader-error", f"reader rejected the writer's output: {exc!r} after {len(recv)} messages "
                            f"(attempted {[len(a) for a in attempted]})")

        # ---- independent decoder must agree on what the wire says
        ref = refws.decode(wire, refws.Config(compress=bool(case["compress"]), decode_text=False,
                                             no_takeover=case["notakeover"], strict_minimal=True))
        if ref.error is not None:
            raise Violation("wire-invalid", f"writer output is not valid RFC 6455/7692: {ref.why}")
        if ref.consumed != len(wire):
            raise Violation("wire-trailing", f"{len(wire) - ref.consumed} trailing bytes after the last complete frame")
        refm = [(m[0], m[1]) if m[0] != "close" else m for m in ref.messages]
        if refm != recv:
            raise Violation("reader-vs-reference", _diff(recv, refm, "aiohttp reader", "reference decoder"))

        # ---- round trip
        if len(case["senders"]) == 1 and not cancel_at:
            if recv != sent_ok[0]:
                raise Violation("roundtrip", _diff(recv, sent_ok[0], "received", "sent"))
        else:
            # every completed send appears; per-sender order kept; nothing invented or duplicated
            pools = [list(a) for a in attempted]
            ptr = [0] * len(pools)
            seen_idx: list[list[int]] = [[] for _ in pools]
            for r in recv:
                placed = False
                for i, pool in enumerate(pools):
                    for k in range(ptr[i], len(pool)):
                        if pool[k] == r:
                            seen_idx[i].append(k)
                            ptr[i] = k + 1
                            placed = True
                            break
                    if placed:
                        break
                if not placed:
                    raise Violation("roundtrip-concurrent", f"received message {_short(r)} is not a not-yet-delivered "
                                    f"message of any sender in order (corrupted, duplicated or reordered)")
            for i, pool in enumerate(pools):
                done_n = len(sent_ok[i])
                missing = [k for k in range(done_n) if k not in seen_idx[i]]
                if missing:
                    raise Violation("roundtrip-lost", f"sender {i}: completed send #{missing[0]} {_short(pool[missing[0]])} never received")

        # ---- stats
        ncomp = 0
        for i, msgs in enumerate(case["senders"]):
            for m in msgs:
                if m["kind"] in ("text", "binary"):
                    if case["compress"] and m.get("override") is None:
                        ncomp += 1
                    if m["size"] in BOUNDARY_SIZES or m["size"] > 2 ** 17:
                        stats["boundary"] = True
        stats["shared_ctx"] = ncomp if not case["notakeover"] else 0
        if loop.exc_contexts:
            raise Violation("loop-exception", repr(loop.exc_contexts[0])[:300])
        return stats
    finally:
        loop.shutdown()


def _short(m) -> str:
    if m[0] == "close":
        return repr(m)
    return f"({m[0]}, {len(m[1])}B {m[1][:24]!r}..)"


def _diff(a: list, b: list, na: str, nb: str) -> str:
    for i in range(max(len(a), len(b))):
        x = a[i] if i < len(a) else None
        y = b[i] if i < len(b) else None
        if x != y:
            return (f"message #{i}: {na}={_short(x) if x else None} {nb}={_short(y) if y else None} "
                    f"(counts {len(a)} vs {len(b)})")
    return "equal?"


def body(rec: Rec, case: dict) -> None:
    stats = execute(case)
    nt = stats["shared_ctx"] >= 2 or stats["boundary"] or stats["senders"] > 1 or stats["cancelled"] > 0
    labels = []
    if stats["shared_ctx"] >= 2:
        labels.append("shared_context>=2")
    if stats["boundary"]:
        labels.append("boundary_size")
    if stats["senders"] > 1:
        labels.append("concurrent")
    if stats["cancelled"]:
        labels.append("cancel")
    if case["use_mask"]:
        labels.append("mask")
    if any(m.get("override") is not None for s in case["senders"] for m in s):
        labels.append("override")
    rec.case(case, nt, labels)


# ------------------------------------------------------------------ generators
def msg_strategy(allow_big: bool, allow_override: bool, min_size: int = 0):
    sizes = st.one_of(
        st.sampled_from([s for s in BOUNDARY_SIZES if s >= min_size]),
        st.integers(min_size, 300),
        st.integers(min_size, 70000),
        *( [st.sampled_from([2 ** 20, 2 ** 20 + 1, 300000])] if allow_big else [] ),
    )
    data = st.fixed_dictionaries(
        {
            "kind": st.sampled_from(["text", "binary"]),
            "size": sizes,
            "style": st.sampled_from(["random", "pattern", "zeros", "utf8"]),
            "buf": st.sampled_from(["bytes", "bytes", "bytearray", "memoryview", "memoryview16"]),
            "twice": st.sampled_from([False, False, False, True]),
        },
        optional={"override": st.sampled_from([9, 12, 15])} if allow_override else {},
    )
    ctl = st.fixed_dictionaries(
        {"kind": st.sampled_from(["ping", "pong"]), "size": st.integers(min_size, 125), "style": st.just("random")}
    )
    return st.one_of(data, data, data, ctl)


@st.composite
def cases(draw, concurrent: bool, override: bool = False):
    compress = draw(st.sampled_from([0, 0, 9, 10, 12, 15, 15]))
    case = {
        "use_mask": draw(st.booleans()),
        "compress": compress,
        "notakeover": draw(st.booleans()) if compress else False,
        "mask_seed": draw(st.integers(0, 5)),
        "decode_text": draw(st.booleans()),
        "limit": draw(st.sampled_from([2 ** 16, 16, 1])),
    }
    ms = msg_strategy(allow_big=not concurrent, allow_override=override and compress > 0, min_size=8 if concurrent else 0)
    if concurrent:
        ns = draw(st.integers(2, 3))
        case["senders"] = [draw(st.lists(ms, min_size=1, max_size=5)) for _ in range(ns)]
        case["exec_mode"] = draw(st.sampled_from(["submit", "complete"]))
        case["exec_delay"] = draw(st.integers(0, 3))
        if draw(st.booleans()):
            case["cancel"] = {str(draw(st.integers(0, ns - 1))): draw(st.integers(0, 12))}
        if draw(st.booleans()):
            # write stalls: "p" pause, "r" resume, "rp" the buffer drains and fills again at once
            case["limit"] = draw(st.sampled_from([1, 16, 200]))
            k = draw(st.integers(1, 4))
            ats = sorted(draw(st.lists(st.integers(0, 14), min_size=k, max_size=k, unique=True)))
            case["stall"] = [[at, "p" if j == 0 else draw(st.sampled_from(["r", "rp", "rp", "p"]))] for j, at in enumerate(ats)]
    else:
        msgs = draw(st.lists(ms, min_size=1, max_size=12))
        if draw(st.booleans()):
            msgs.append({"kind": "close", "code": draw(st.sampled_from([1000, 1001, 3000, 4999])),
                         "reason": draw(st.sampled_from(["", "bye", "é"]))})
        case["senders"] = [msgs]
        case["exec_mode"] = "submit"
        case["exec_delay"] = draw(st.integers(0, 1))
    case["cuts"] = draw(st.one_of(st.just([]), st.lists(st.integers(0, 200000), max_size=8),
                                  st.lists(st.integers(0, 40), max_size=8)))
    return case


@st.composite
def big_override_cases(draw):
    """Large (executor-compressed) sends from several tasks with a per-message override in between, all drawing on one text."""
    big = st.fixed_dictionaries({"kind": st.sampled_from(["text", "binary"]), "size": st.sampled_from([16385, 17000, 20000, 40000, 70000]), "style": st.just("shared")})
    small = st.fixed_dictionaries({"kind": st.sampled_from(["text", "binary"]), "size": st.integers(8, 3000), "style": st.sampled_from(["shared", "random", "pattern"])})
    ov = st.fixed_dictionaries({"kind": st.sampled_from(["text", "binary"]), "size": st.sampled_from([8, 100, 3000, 17000]), "style": st.sampled_from(["random", "shared"]),
                                "override": st.sampled_from([9, 12, 15])})
    ns = draw(st.integers(2, 4))
    senders = []
    for _ in range(ns):
        senders.append(draw(st.lists(st.one_of(big, big, ov, small), min_size=1, max_size=3)))
    case = {
        "use_mask": draw(st.booleans()), "compress": draw(st.sampled_from([9, 10, 12, 15])), "notakeover": draw(st.sampled_from([False, False, False, True])),
        "mask_seed": draw(st.integers(0, 5)), "decode_text": draw(st.booleans()), "limit": 2 ** 16, "senders": senders,
        "exec_mode": draw(st.sampled_from(["submit", "complete"])), "exec_delay": draw(st.integers(0, 3)),
        "cuts": draw(st.one_of(st.just([]), st.lists(st.integers(0, 200000), max_size=4))),
    }
    if draw(st.integers(0, 3)) == 0:
        case["cancel"] = {str(draw(st.integers(0, ns - 1))): draw(st.integers(0, 12))}
    return case


def unit_big_override(rec: Rec, n: int, offset: int) -> None:
    hyp.run(rec, big_override_cases(), body, n, seed_offset=offset)


def unit_hyp(rec: Rec, n: int, offset: int, concurrent: bool, override: bool = False) -> None:
    hyp.run(rec, cases(concurrent, override), body, n, seed_offset=offset)


def unit_grid(rec: Rec, shard: int, nshards: int, sizes: list) -> None:
    """Exhaustive size x config grid: one message of each boundary size after a context-warming message."""
    i = -1
    for size in sizes:
        for use_mask in (False, True):
            for compress in (0, 9, 15):
                for notakeover in ((False, True) if compress else (False,)):
                    for kind in ("text", "binary"):
                        i += 1
                        if i % nshards != shard:
                            continue
                        case = {
                            "use_mask": use_mask, "compress": compress, "notakeover": notakeover, "mask_seed": 1,
                            "decode_text": True, "limit": 2 ** 16, "exec_mode": "submit", "exec_delay": 0,
                            "senders": [[{"kind": "binary", "size": 40, "style": "pattern"},
                                         {"kind": kind, "size": size, "style": "random"},
                                         {"kind": kind, "size": size, "style": "pattern"},
                                         {"kind": "text", "size": 40, "style": "pattern"}]],
                            "cuts": [1, 2, 3, 5, 11, size // 2 + 7],
                        }
                        try:
                            body(rec, case)
                        except Violation as v:
                            rec.fail(v.key, v.msg, case)
    rec.exhaustive = True


def unit_huge(rec: Rec, sizes: list) -> None:
    """Multi-megabyte compressed messages on a reader without a message size limit: whatever a decompression
    helper does in one step, the message comes back whole and the next one is not disturbed."""
    for size in sizes:
        for style in ("zeros", "pattern"):
            case = {
                "use_mask": False, "compress": 15, "notakeover": False, "mask_seed": 1,
                "decode_text": True, "limit": 2 ** 16, "exec_mode": "submit", "exec_delay": 0,
                "senders": [[{"kind": "binary", "size": size, "style": style},
                             {"kind": "text", "size": 40, "style": "pattern"}]],
                "cuts": [size // 3],
            }
            try:
                body(rec, case)
            except Violation as v:
                rec.fail(v.key, v.msg, case)
    rec.exhaustive = True


def units(tier: str, seed: int) -> list[Unit]:
    us = []
    n = 120 if tier == "quick" else 4000
    us.append(Unit("huge", unit_huge, {"sizes": [2 ** 24 + 1] if tier == "quick" else [2 ** 22 + 1, 2 ** 24 + 1, 2 ** 25 + 3]}))
    for i in range(6):
        us.append(Unit(f"seq{i}", unit_hyp, {"n": n, "offset": i, "concurrent": False}))
    for i in range(4):
        us.append(Unit(f"conc{i}", unit_hyp, {"n": n, "offset": 100 + i, "concurrent": True}))
    for i in range(2):
        us.append(Unit(f"override{i}", unit_hyp, {"n": n, "offset": 200 + i, "concurrent": False, "override": True}))
    for i in range(3):
        # concurrent senders where some messages carry a per-message compress override
        us.append(Unit(f"conc-override{i}", unit_hyp, {"n": n, "offset": 300 + i, "concurrent": True, "override": True}))
    for i in range(3):
        us.append(Unit(f"big-override{i}", unit_big_override, {"n": n // 2, "offset": 400 + i}))
    sizes = BOUNDARY_SIZES if tier == "quick" else sorted(set(BOUNDARY_SIZES + list(range(120, 132)) + [65534, 65538, 2 ** 20, 2 ** 20 + 1]))
    for sh in range(4):
        us.append(Unit(f"grid{sh}", unit_grid, {"shard": sh, "nshards": 4, "sizes": sizes}))
    return us


def replay(rec: Rec, case: dict) -> None:
    execute(case)
