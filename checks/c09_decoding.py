"""C09 Body decoding is transparent, memory-bounded and always makes progress."""
from __future__ import annotations

import asyncio
import gzip
import logging
import zlib

from hypothesis import strategies as st

from vlib import hyp, memnet
from vlib.detloop import Quiescent, new_loop
from vlib.runner import Rec, Unit, Violation

PROPERTY = "C09"
LEVEL = "exploration"
RULE = (
    "case = (side client|server; payload shape: random / all-zero bomb / text / several concatenated members incl. "
    "empty ones; coding identity|gzip|deflate|raw deflate|br|zstd; framing Content-Length|chunked (chunk sizes 1..8k)|"
    "EOF; corruption none|bit flip at k|truncation at k with consistent framing; wire segmentation; consumer schedule "
    "(read sizes, readany, iter_chunked, pauses of k loop iterations); read-buffer limit 1..64k; client_max_size on the "
    "server).  Oracle: bytes read == one-shot reference decode (zlib, brotli, backports.zstd); a stream the reference "
    "decoder rejects must surface as a payload error; the consumer must reach end-of-body or an error (Quiescent on "
    "the virtual-time loop = stall); decoded-but-unread bytes sampled after every loop iteration stay <= 4*max(limit, "
    "largest read size) + slack; server read()/post() never returns more than client_max_size (413 instead).  "
    "Non-trivial = compression ratio > 100, or limit < payload/10, or corruption present.  distinct = canonical case."
)
ASSUMPTIONS = [
    "the brotli library overshoots the requested output limit (about 2x, at least one 64 KiB block): bound for br is 8*L + 64 KiB",
    "a truncated gzip/zstd/br stream inside complete HTTP framing counts as corrupt when the one-shot reference decoder rejects it",
]

for _n in ("aiohttp.server", "aiohttp.access", "aiohttp.web", "aiohttp.client", "aiohttp.internal"):
    logging.getLogger(_n).disabled = True


def make_payload(shape: str, n: int, k: int) -> list[bytes]:
    """List of members (each compressed separately and concatenated)."""
    if shape == "zeros":
        return [b"\x00" * n]
    if shape == "text":
        return [(b"The quick brown fox jumps over the lazy dog. " * (n // 45 + 1))[:n]]
    if shape == "random":
        import hashlib

        return [hashlib.shake_128(b"c09-%d" % k).digest(n)]
    if shape == "members":
        third = max(1, n // 3)
        return [b"a" * third, b"", bytes(range(256)) * (third // 256 + 1), b"", b"tail-%d" % k]
    raise ValueError(shape)


def encode(members: list[bytes], coding: str) -> bytes:
    if coding == "identity":
        return b"".join(members)
    out = bytearray()
    for m in members:
        if coding == "gzip":
            out += gzip.compress(m, mtime=0)
        elif coding == "deflate":
            out += zlib.compress(m)
        elif coding == "rawdeflate":
            c = zlib.compressobj(6, zlib.DEFLATED, -15)
            out += c.compress(m) + c.flush()
        elif coding == "br":
            import brotli

            out += brotli.compress(m)
        elif coding == "zstd":
            from backports import zstd

            out += zstd.compress(m)
    return bytes(out)


def reference_decode(data: bytes, coding: str):
    """One-shot reference decoding: bytes, or an exception instance if the stream is corrupt/incomplete."""
    try:
        if coding == "identity":
            return data
        if coding == "gzip":
            out = bytearray()
            rest = data
            while rest:
                d = zlib.decompressobj(16 + zlib.MAX_WBITS)
                out += d.decompress(rest)
                if not d.eof:
                    return EOFError("truncated gzip member")
                rest = d.unused_data
            return bytes(out)
        if coding in ("deflate", "rawdeflate"):
            out = bytearray()
            rest = data
            wb = zlib.MAX_WBITS if coding == "deflate" else -15
            while rest:
                d = zlib.decompressobj(wb)
                out += d.decompress(rest)
                if not d.eof:
                    return EOFError("truncated deflate stream")
                rest = d.unused_data
            return bytes(out)
        if coding == "br":
            import brotli

            return brotli.decompress(data) if data else b""
        if coding == "zstd":
            from backports import zstd

            out = bytearray()
            rest = data
            while rest:
                d = zstd.ZstdDecompressor()
                out += d.decompress(rest)
                if not d.eof:
                    return EOFError("truncated zstd frame")
                rest = d.unused_data
            return bytes(out)
    except Exception as e:  # noqa: BLE001
        return e
    raise ValueError(coding)


def lenient_decode(data: bytes, coding: str):
    """Streaming reference decode that tolerates an unterminated stream (what the suite asserts for gzip/br/zstd at
    EOF): the decodable prefix, or an exception instance when the bytes themselves are invalid."""
    try:
        if coding == "gzip":
            out = bytearray()
            rest = data
            while rest:
                d = zlib.decompressobj(16 + zlib.MAX_WBITS)
                out += d.decompress(rest)
                if not d.eof:
                    break
                rest = d.unused_data
            return bytes(out)
        if coding == "br":
            import brotli

            d = brotli.Decompressor()
            out = bytearray(d.process(data)) if data else bytearray()
            while not d.is_finished():
                more = d.process(b"")
                if not more:
                    break
                out += more
            return bytes(out)
        if coding == "zstd":
            from backports import zstd

            out = bytearray()
            rest = data
            while rest:
                d = zstd.ZstdDecompressor()
                out += d.decompress(rest)
                if not d.eof:
                    break
                rest = d.unused_data
            return bytes(out)
    except Exception as e:  # noqa: BLE001
        return e
    return EOFError("unterminated stream")


def frame(body: bytes, framing: str, chunk: int) -> tuple[bytes, bytes]:
    if framing == "cl":
        return f"Content-Length: {len(body)}\r\n".encode(), body
    if framing == "chunked":
        out = bytearray()
        for i in range(0, len(body), chunk):
            part = body[i:i + chunk]
            out += f"{len(part):x}\r\n".encode() + part + b"\r\n"
        out += b"0\r\n\r\n"
        return b"Transfer-Encoding: chunked\r\n", bytes(out)
    return b"", body


def wire_coding(coding: str, spelling: int = 0) -> str:
    name = "deflate" if coding == "rawdeflate" else coding
    # content-coding names are case-insensitive (RFC 9110 8.4.1)
    return [name, name.upper(), name.capitalize()][spelling % 3]


def execute(case: dict) -> dict:
    import aiohttp
    from aiohttp import web

    loop = new_loop()
    stats = {"ratio": 1.0, "max_resident": 0}
    try:
        members = make_payload(case["shape"], case["size"], case.get("k", 0))
        coding = case["coding"]
        enc = encode(members, coding)
        corr = case.get("corrupt")
        if corr and enc:
            pos = corr[1] % len(enc)
            if corr[0] == "flip":
                enc = enc[:pos] + bytes([enc[pos] ^ (1 << (corr[2] % 8))]) + enc[pos + 1:]
            elif corr[0] == "trunc":
                enc = enc[:pos]
        ref = reference_decode(enc, coding)
        plain_len = len(ref) if isinstance(ref, bytes) else sum(len(m) for m in members)
        stats["ratio"] = plain_len / max(1, len(enc))
        limit = case["limit"]
        reads = case.get("reads") or [-1]
        maxread = max([r for r in reads if r and r > 0] + [1])
        L = max(limit, maxread if any(r and r > 0 for r in reads) else limit)
        # the brotli library overshoots the requested output limit (measured: 491456 bytes for a 262144 request,
        # and at least one 64 KiB block for tiny limits): library granularity, not aiohttp's doing
        slack = (65536 + 4 * L) if coding == "br" else 0
        hdr_fr, wire_body = frame(enc, case["framing"], case.get("chunk", 1000))
        plan = [p for p in (case.get("s2c") or []) if p and p > 0]
        seg = max(plan) if plan else len(wire_body) + 512
        # high water (2L) + one decompress call (L) + whatever one wire segment carries undecoded
        bound = 4 * L + 2048 + slack + seg
        if case.get("mode") == "readline":
            # a line reader may hold one line of up to the line limit (= high water, 2L) in its hands on top of the buffer
            bound += 3 * L
        ce = b"" if coding == "identity" else f"Content-Encoding: {wire_coding(coding, case.get('spelling', 0))}\r\n".encode()
        consumed = [0]
        result: dict = {}

        async def consume(stream, out: bytearray) -> None:
            i = 0
            mode = case.get("mode", "read")
            while True:
                r = reads[i % len(reads)]
                i += 1
                if mode == "readany":
                    chunk = await stream.readany()
                elif mode == "iter":
                    chunk = b""
                    async for c in stream.iter_chunked(max(1, r if r and r > 0 else 1024)):
                        out.extend(c)
                        consumed[0] += len(c)
                        for _ in range(case.get("pause", 0)):
                            await asyncio.sleep(0)
                    return
                elif mode == "readline":
                    # line-oriented consumers (readline / async for line / the multipart reader): a body without a separator
                    # ends in LineTooLong - after a bounded amount of decoding, not after all of it
                    from aiohttp.http_exceptions import LineTooLong

                    try:
                        chunk = await stream.readline()
                    except (LineTooLong, ValueError) as e:
                        result["line_too_long"] = type(e).__name__
                        result["decoded_at_giveup"] = getattr(stream, "total_bytes", 0) - consumed[0]
                        return
                else:
                    chunk = await stream.read(r if r else 1)
                if not chunk:
                    return
                out.extend(chunk)
                consumed[0] += len(chunk)
                for _ in range(case.get("pause", 0)):
                    await asyncio.sleep(0)

        if case["side"] == "client":
            peer = memnet.ScriptPeer()

            def on_data(p, data):
                if b"\r\n\r\n" in p.received and not result.get("sent"):
                    result["sent"] = True
                    close = case["framing"] == "eof"
                    p.send(b"HTTP/1.1 200 OK\r\n" + hdr_fr + ce + (b"Connection: close\r\n" if close else b"") + b"\r\n" + wire_body)
                    if close:
                        loop.call_soon(p.close)

            peer.on_data = on_data
            MC = memnet.make_connector_class()
            holder: dict = {}

            def pf(req, idx):
                return peer, memnet.Plan(), memnet.Plan(case.get("s2c") or [])

            async def main():
                conn = MC(pf)
                session = aiohttp.ClientSession(connector=conn, read_bufsize=limit, timeout=aiohttp.ClientTimeout(total=None))
                try:
                    resp = await session.get("http://example.com/")
                    holder["content"] = resp.content
                    holder["transport"] = conn.transports[0][0]
                    out = bytearray()
                    try:
                        await consume(resp.content, out)
                        result["body"] = bytes(out)
                    except (aiohttp.ClientPayloadError, aiohttp.ClientConnectionError, aiohttp.http_exceptions.HttpProcessingError) as e:
                        result["error"] = type(e).__name__
                        result["partial"] = bytes(out)
                    resp.close()
                finally:
                    await session.close()

            task = loop.create_task(main())
        else:
            cms = case.get("client_max_size", 1 << 20)

            async def handler(request: web.Request):
                try:
                    if case.get("server_api") == "stream":
                        out = bytearray()
                        result["content"] = request.content
                        await consume(request.content, out)
                        data = bytes(out)
                    else:
                        data = await request.read()
                except web.HTTPRequestEntityTooLarge:
                    result["too_large"] = True
                    raise
                result["body"] = data
                return web.Response(text="ok")

            holder = result

            async def main():
                app = web.Application(client_max_size=cms)
                app.router.add_route("*", "/", handler)
                runner = web.AppRunner(app, access_log=None, read_bufsize=limit)
                await runner.setup()
                proto = runner.server()
                peer = memnet.ScriptPeer()
                log: list = []
                ct, st_ = memnet.connect_protocols(loop, log, peer, proto, c2s=memnet.Plan(case.get("s2c") or []))
                result["transport"] = st_
                peer.send(b"POST / HTTP/1.1\r\nHost: a\r\n" + hdr_fr + ce + b"\r\n" + wire_body)
                if case["framing"] == "eof":
                    raise RuntimeError("EOF framing is not a request framing")
                while not (b"\r\n\r\n" in peer.received or peer.lost):
                    await asyncio.sleep(0)
                result["response"] = bytes(peer.received)
                await runner.cleanup()

            task = loop.create_task(main())

        # drive one loop iteration at a time and sample decoded-but-unread bytes
        it = 0
        while not task.done():
            loop.step()
            it += 1
            content = holder.get("content")
            if content is not None and not result.get("line_too_long"):  # once the line reader gave up the rest is drained, not held
                resident = getattr(content, "total_bytes", 0) - consumed[0]
                stats["max_resident"] = max(stats["max_resident"], resident)
                tr = holder.get("transport")
                try:
                    high = content.get_read_buffer_limits()[1]
                except AttributeError:  # EMPTY_PAYLOAD has no buffer
                    high = None
                if (case.get("mode") != "readline"  # bytes a line reader has already taken out of the buffer are not "buffered"
                        and tr is not None and high is not None and resident > high and not tr.reading_paused and not tr.closing and not tr.lost_called
                        and not content.is_eof() and content.exception() is None):
                    raise Violation("not-paused-over-high-water", f"{resident} decoded bytes buffered > high water {high} and the body is not complete, "
                                    f"but reading from the transport is not paused; coding={coding} framing={case['framing']} limit={limit}")
                if resident > bound and -1 not in reads and case.get("mode") != "readany":
                    raise Violation("memory-bound", f"{resident} decoded bytes resident with read limit {limit} (largest read {maxread}), bound {bound}; "
                                    f"coding={coding} ratio={stats['ratio']:.0f} framing={case['framing']}")
            if task.done():
                break
            if not loop.has_ready():
                nt = loop.next_timer()
                if nt is None:
                    raise Violation("stall", f"nothing can happen any more after {it} iterations: consumed {consumed[0]} of {plain_len} bytes "
                                    f"(coding={coding} framing={case['framing']} limit={limit} reads={reads} pause={case.get('pause')})")
                loop._vtime = max(loop._vtime, nt)
            if it > 3_000_000:
                raise Violation("livelock", f"{it} loop iterations without finishing")
        exc = task.exception()
        if exc is not None:
            raise Violation(hyp.exc_key(exc, "exchange-raised"), f"{type(exc).__name__}: {exc!r}"[:300])

        # ---- oracle
        if result.get("line_too_long"):
            # the line API gave up on an over-long line: only the memory bound applies - including at the moment it gave up
            # (everything decoded but not handed to the application by then was held in memory)
            if result.get("decoded_at_giveup", 0) > bound:
                raise Violation("memory-bound/line-reader", f"{result['decoded_at_giveup']} bytes had been decoded and were held when readline() gave up with "
                                f"{result['line_too_long']}; read limit {limit}, bound {bound}; coding={coding} framing={case['framing']}")
            stats["plain"] = plain_len
            return stats
        if case["side"] == "client" or case.get("server_api") == "stream":
            if isinstance(ref, bytes):
                if "error" in result:
                    raise Violation(f"valid-body-rejected/{coding}", f"reference decodes {len(ref)} bytes, aiohttp raised {result['error']} after {len(result.get('partial', b''))} bytes")
                got = result.get("body")
                if got is None and case["side"] == "server":
                    got = b""
                if got != ref:
                    raise Violation(f"decoded-bytes-differ/{coding}", f"read {len(got or b'')} bytes, reference decode has {len(ref)} (first diff at {_fd(got or b'', ref)})")
            else:
                if "error" not in result and case["side"] == "client":
                    # the suite pins that an UNTERMINATED gzip/br/zstd stream is tolerated at EOF (test_feed_eof_no_err_*):
                    # then what was delivered must be exactly the decodable prefix, never other bytes
                    len_ref = lenient_decode(enc, coding)
                    plain = b"".join(members)
                    got_b = result.get("body") or b""
                    harmless = plain.startswith(got_b) and coding in ("gzip", "br", "zstd")  # an unterminated stream: only correct bytes, fewer of them
                    if not ((isinstance(len_ref, bytes) and got_b == len_ref) or harmless):
                        raise Violation(f"corrupt-body-delivered/{coding}/{corr[0] if corr else '?'}", f"reference decoder rejects the stream ({ref!r}) but aiohttp delivered "
                                        f"{len(result.get('body', b''))} bytes as a complete body (decodable prefix: {len(len_ref) if isinstance(len_ref, bytes) else len_ref!r})")
        else:
            resp = result.get("response", b"")
            status = int(resp[9:12]) if resp[:5] == b"HTTP/" else 0
            if isinstance(ref, bytes):
                if len(ref) > cms:
                    if status != 413 or "body" in result:
                        raise Violation("client-max-size", f"body of {len(ref)} bytes with client_max_size={cms}: status {status}, read() returned {len(result.get('body', b''))} bytes")
                else:
                    if status != 200 or result.get("body") != ref:
                        raise Violation(f"server-body-differs/{coding}", f"status {status}; read() returned {len(result.get('body') or b'')} bytes, reference {len(ref)}")
            else:
                if status == 200:
                    len_ref = lenient_decode(enc, coding)
                    if not (isinstance(len_ref, bytes) and result.get("body") == len_ref) and result.get("body") != b"".join(members):
                        # (a corruption that still yields exactly the original bytes - e.g. in a checksum the streaming decoder does
                        # not verify - delivers nothing wrong)
                        raise Violation(f"corrupt-body-delivered/{coding}/{corr[0] if corr else '?'}", f"server handler got {len(result.get('body') or b'')} bytes from a stream the reference rejects ({ref!r})")
            if "body" in result and len(result["body"]) > cms:
                raise Violation("client-max-size", f"read() returned {len(result['body'])} bytes > client_max_size {cms}")
        if loop.exc_contexts:
            ctx = loop.exc_contexts[0]
            e = ctx.get("exception")
            raise Violation(hyp.exc_key(e, "loop-exception") if e else "loop-exception", f"{ctx.get('message')}: {e!r}"[:300])
        stats["plain"] = plain_len
        return stats
    finally:
        loop.shutdown()


def _fd(a: bytes, b: bytes) -> int:
    for i, (x, y) in enumerate(zip(a, b)):
        if x != y:
            return i
    return min(len(a), len(b))


def body(rec: Rec, case: dict) -> None:
    stats = execute(case)
    nt = stats["ratio"] > 100 or case["limit"] * 10 < stats.get("plain", 0) or bool(case.get("corrupt"))
    labels = [case["side"], "coding:" + case["coding"], "framing:" + case["framing"], "shape:" + case["shape"]]
    if case.get("corrupt"):
        labels.append("corrupt:" + case["corrupt"][0])
    if stats["ratio"] > 100:
        labels.append("bomb")
    if case["limit"] <= 16:
        labels.append("tiny-limit")
    rec.case(case, bool(nt), labels)


# ------------------------------------------------------------------ generators
@st.composite
def cases(draw, side: str):
    shape = draw(st.sampled_from(["zeros", "zeros", "text", "random", "members"]))
    size = draw(st.sampled_from([0, 1, 100, 5000, 70000, 300000] if shape != "zeros" else [1000, 100000, 2_000_000, 8_000_000]))
    if shape == "random":
        size = min(size, 70000)
    coding = draw(st.sampled_from(["identity", "gzip", "gzip", "deflate", "rawdeflate", "br", "zstd"]))
    framing = draw(st.sampled_from(["cl", "chunked", "chunked", "eof"] if side == "client" else ["cl", "chunked"]))
    limit = draw(st.sampled_from([1, 16, 1024, 65536, 2 ** 18]))
    case = {
        "side": side, "shape": shape, "size": size, "k": draw(st.integers(0, 3)), "coding": coding, "spelling": draw(st.sampled_from([0, 0, 0, 1, 2])), "framing": framing,
        "chunk": draw(st.sampled_from([1, 7, 100, 1000, 8192])), "limit": limit,
        "mode": draw(st.sampled_from(["read", "read", "readany", "iter", "readline"])),
        "reads": draw(st.lists(st.sampled_from([1, 5, 100, 4096, 70000, -1]), min_size=1, max_size=3)),
        "pause": draw(st.sampled_from([0, 0, 1, 3])),
        "s2c": draw(st.sampled_from([[], [1460], [100, 3], [65536], [7]])),
    }
    if limit <= 16 and size > 300000:
        case["size"] = size = 300000
    # keep the number of read calls per case below ~20k
    floor = max(1, size // 20000)
    case["reads"] = [r if (r == -1 or r >= floor) else max(floor, 4096) for r in case["reads"]]
    if size >= 100000 and case["s2c"] == [7]:
        case["s2c"] = [1460]
    if size >= 100000 and case["chunk"] < 100:
        case["chunk"] = 1000
    if size >= 2_000_000 and case["chunk"] < 100:
        case["chunk"] = 1000
    if draw(st.integers(0, 3)) == 0 and coding not in ("identity", "rawdeflate"):  # raw deflate is sniffed from its first byte: ambiguous once corrupted
        case["corrupt"] = [draw(st.sampled_from(["flip", "trunc"])), draw(st.integers(0, 10 ** 6)), draw(st.integers(0, 7))]
    if side == "server":
        case["client_max_size"] = draw(st.sampled_from([1024, 65536, 1 << 20]))
        case["server_api"] = draw(st.sampled_from(["read", "read", "stream"]))
    return case


@st.composite
def backpressure_cases(draw):
    """Bodies much larger than the read buffer, arriving in large wire segments, read by a slow consumer."""
    coding = draw(st.sampled_from(["identity", "identity", "gzip", "deflate", "zstd"]))
    size = draw(st.sampled_from([100000, 300000]))
    return {
        "side": "client", "shape": draw(st.sampled_from(["text", "zeros", "random"])) if coding == "identity" else draw(st.sampled_from(["text", "zeros"])),
        "size": size if coding == "identity" else size * 4, "k": 0, "coding": coding,
        "framing": draw(st.sampled_from(["chunked", "chunked", "cl", "eof"])), "chunk": draw(st.sampled_from([100, 1000, 8192])),
        "limit": draw(st.sampled_from([1, 16, 1024, 4096])), "mode": "read", "reads": [draw(st.sampled_from([1000, 4096, 8192]))],
        "pause": draw(st.sampled_from([1, 2, 3])), "s2c": draw(st.sampled_from([[65536], [20000, 30000], [5000], []])),
    }


def unit_backpressure(rec: Rec, n: int, offset: int) -> None:
    hyp.run(rec, backpressure_cases(), body, n, seed_offset=offset, max_root_causes=4)


def unit_hyp(rec: Rec, n: int, offset: int, side: str) -> None:
    hyp.run(rec, cases(side), body, n, seed_offset=offset, max_root_causes=6)


def post_cases() -> list[dict]:
    """request.post() on a multipart/form-data request whose WHOLE body is content-coded: client_max_size is about what the
    application gets (decoded bytes), not about what was on the wire."""
    out = []
    for coding in ("gzip", "deflate", "br", "zstd"):
        for cms in (1024, 65536):
            for mult in (0.5, 4, 40):
                for shape in ("text", "file", "many"):
                    out.append({"coding": coding, "cms": cms, "mult": mult, "shape": shape})
    return out


def check_post(rec: Rec, case: dict) -> None:
    from aiohttp import web

    cms = case["cms"]
    size = int(cms * case["mult"])
    payload = (b"form-data-" * (size // 10 + 1))[:size]  # compresses well: the wire size stays far below cms
    B = b"BOUND"
    if case["shape"] == "many":
        n = max(1, size // 256)
        doc = b"".join(b"--" + B + b"\r\nContent-Disposition: form-data; name=\"f%d\"\r\n\r\n" % k + payload[k * 256:(k + 1) * 256] + b"\r\n" for k in range(n))
        decoded = sum(len(payload[k * 256:(k + 1) * 256]) for k in range(n))
    else:
        disp = b'Content-Disposition: form-data; name="f"' + (b'; filename="x.bin"\r\nContent-Type: application/octet-stream' if case["shape"] == "file" else b"")
        doc = b"--" + B + b"\r\n" + disp + b"\r\n\r\n" + payload + b"\r\n"
        decoded = size
    doc += b"--" + B + b"--\r\n"
    wire = encode([doc], case["coding"])
    loop = new_loop()
    result: dict = {}
    try:
        async def handler(request: web.Request):
            d = await request.post()
            got = 0
            for v in d.values():
                got += len(v.file.read()) if hasattr(v, "file") else len(v)
            result["got"] = got
            return web.Response(text="ok")

        async def main():
            app = web.Application(client_max_size=cms)
            app.router.add_post("/", handler)
            runner = web.AppRunner(app, access_log=None)
            await runner.setup()
            proto = runner.server()
            peer = memnet.ScriptPeer()
            memnet.connect_protocols(loop, [], peer, proto, c2s=memnet.Plan([1500]))
            peer.send(b"POST / HTTP/1.1\r\nHost: a\r\nContent-Type: multipart/form-data; boundary=BOUND\r\nContent-Encoding: "
                      + wire_coding(case["coding"], 0).encode() + b"\r\nContent-Length: %d\r\n\r\n" % len(wire) + wire)
            for _ in range(20000):
                if b"\r\n\r\n" in peer.received or peer.lost:
                    break
                await asyncio.sleep(0)
            result["response"] = bytes(peer.received)
            await runner.cleanup()

        loop.drive(main(), max_time=200)
    finally:
        loop.shutdown()
    resp = result.get("response", b"")
    status = int(resp[9:12]) if resp[:5] == b"HTTP/" else 0
    if decoded > cms:
        if status != 413 or "got" in result:
            raise Violation("client-max-size/post", f"{case}: form of {decoded} decoded bytes ({len(wire)} on the wire) with client_max_size={cms}: status {status}, "
                            f"post() handed {result.get('got')} bytes to the application")
    elif len(doc) <= cms and (status != 200 or result.get("got") != decoded):
        raise Violation("server-body-differs/post", f"{case}: status {status}, post() returned {result.get('got')} bytes of {decoded}")
    rec.case(case, decoded > cms, ["post-multipart-coded", case["coding"]])


def unit_post(rec: Rec, shard: int, nshards: int) -> None:
    rec.exhaustive = True
    for i, case in enumerate(post_cases()):
        if i % nshards != shard:
            continue
        try:
            check_post(rec, case)
        except Violation as v:
            if v.key in rec.muted:
                continue
            rec.fail(v.key, v.msg, case)
            rec.muted.add(v.key)


def units(tier: str, seed: int) -> list[Unit]:
    n = 150 if tier == "quick" else 1500
    us = [Unit(f"client{i}", unit_hyp, {"n": n, "offset": i, "side": "client"}) for i in range(10)]
    us += [Unit(f"server{i}", unit_hyp, {"n": n, "offset": 40 + i, "side": "server"}) for i in range(6)]
    us += [Unit(f"backpressure{i}", unit_backpressure, {"n": max(20, n // 2), "offset": 80 + i}) for i in range(4)]
    us += [Unit(f"post{sh}", unit_post, {"shard": sh, "nshards": 2}) for sh in range(2)]
    return us


def replay(rec: Rec, case: dict) -> None:
    if "cms" in case and "shape" in case:
        check_post(rec, case)
        return
    execute(case)
