"""C14 URL dispatch follows the documented resolution rule."""
from __future__ import annotations

import asyncio
import itertools
import logging
import re
import tempfile
from urllib.parse import unquote

from hypothesis import strategies as st

from vlib import hyp
from vlib.detloop import new_loop
from vlib.runner import Rec, Unit, Violation

PROPERTY = "C14"
LEVEL = "exploration"
RULE = (
    "case = route table built from a grammar (plain paths, {x}, mid-segment p{x}/{x}s, regex {x:\\d+}, tail {t:.*}, static "
    "prefixes, sub-applications nested up to twice, domain sub-applications; methods GET(+auto HEAD)/POST/*) over the "
    "segment alphabet {a, b, ab, 'a b', 'é', 'a.b'}, in generated and (for small tables) ALL registration orders, "
    "queried with every path of <= 3 segments over the alphabet plus percent-encoded variants (%2F, %25, %7B, %41), "
    "empty/repeated segments and trailing slashes, methods GET/POST/HEAD/PUT, two Host values.  Oracle: an independent "
    "linear implementation of the documented lookup rule (longest fixed prefix first by the ORIGINAL template text, "
    "registration order among equals, method must match, sub-application capture, 405 with the union of allowed "
    "methods, else 404); match_info equality; resolve(url_for(**params)) round trip; normalize_path_middleware redirect "
    "targets must stay on-site.  Non-trivial = the table has >= 2 resources whose keys or patterns overlap.  "
    "distinct = (table, path, method, host)."
)
ASSUMPTIONS = [
    "templates are decoded text (what PlainResource compares against path_safe); percent-escapes appear only in request paths",
    "domain sub-application vs indexed resource precedence is set-valued (documentation says after, the code comment says before)",
]

logging.getLogger("aiohttp.web").disabled = True

SEGS = ["a", "b", "ab", "a b", "é", "a.b"]
METHODS = ["GET", "POST", "HEAD", "PUT"]
HOSTS = ["example.com", "other.org", "a.example.com", "a.example.com.evil.org", "A.Example.COM"]


def domain_rule_matches(rule: str, host: str) -> bool:
    """add_domain(): an exact (case-insensitive) host, or a mask whose '*' stands for any run of characters - the whole
    Host value has to match, not a prefix of it."""
    rule, host = rule.lower(), host.lower()
    if "*" not in rule:
        return rule == host
    pieces = rule.split("*")
    if not host.startswith(pieces[0]) or not host.endswith(pieces[-1]) or len(host) < len(pieces[0]) + len(pieces[-1]):
        return False
    pos = len(pieces[0])
    end = len(host) - len(pieces[-1])
    for mid in pieces[1:-1]:
        k = host.find(mid, pos, end)
        if k < 0:
            return False
        pos = k + len(mid)
    return True


# ------------------------------------------------------------------ reference model
def norm_path(raw: str) -> str:
    """What the dispatcher matches against: percent-decoded path except %2F and %25."""
    out = []
    i = 0
    while i < len(raw):
        if raw[i] == "%" and i + 2 < len(raw) + 0 and re.fullmatch(r"[0-9A-Fa-f]{2}", raw[i + 1:i + 3]):
            code = raw[i + 1:i + 3].upper()
            if code in ("2F", "25"):
                out.append("%" + code)
            else:
                # collect a run of escapes and decode as UTF-8
                j = i
                bs = bytearray()
                while j + 2 < len(raw) + 0 and raw[j] == "%" and re.fullmatch(r"[0-9A-Fa-f]{2}", raw[j + 1:j + 3]) and raw[j + 1:j + 3].upper() not in ("2F", "25"):
                    bs.append(int(raw[j + 1:j + 3], 16))
                    j += 3
                out.append(bs.decode("utf-8", "replace"))
                i = j
                continue
            i += 3
            continue
        out.append(raw[i])
        i += 1
    return "".join(out)


def template_key(tmpl: str) -> str:
    fixed = tmpl.split("{", 1)[0]
    if "{" in tmpl:
        fixed = fixed.rpartition("/")[0]
    return fixed.rstrip("/") or "/"


def template_regex(tmpl: str):
    pat = ""
    for part in re.split(r"(\{[_a-zA-Z][^{}]*(?:\{[^{}]*\}[^{}]*)*\})", tmpl):
        m = re.fullmatch(r"\{([_a-zA-Z][_a-zA-Z0-9]*)\}", part)
        if m:
            pat += f"(?P<{m.group(1)}>[^{{}}/]+)"
            continue
        m = re.fullmatch(r"\{([_a-zA-Z][_a-zA-Z0-9]*):(.+)\}", part)
        if m:
            pat += f"(?P<{m.group(1)}>{m.group(2)})"
            continue
        pat += re.escape(part)
    return re.compile(pat)


class MRes:
    def __init__(self, kind: str, tmpl: str, order: int, prefix: str = "") -> None:
        self.kind = kind  # plain | dyn | static | subapp
        self.tmpl = tmpl  # full template text incl. composed prefixes
        self.order = order
        self.routes: dict[str, int] = {}
        self.sub: "MApp | None" = None
        self.key = template_key(tmpl) if kind in ("plain", "dyn") else (tmpl.rstrip("/") or "/")
        self.rx = template_regex(tmpl) if kind == "dyn" else None

    def match(self, path: str):
        if self.kind == "plain":
            return {} if path == self.tmpl else None
        if self.kind == "dyn":
            m = self.rx.fullmatch(path)
            if not m:
                return None
            return {k: v.replace("%2F", "/").replace("%25", "%") for k, v in m.groupdict().items()}
        if self.kind == "static":
            if path == self.tmpl or path.startswith(self.tmpl.rstrip("/") + "/"):
                # a static mount only claims what is still below it once dot segments are resolved
                # ("/st/../stuff/x" is not below "/st", although its text starts with it)
                import posixpath

                norm = posixpath.normpath(path)
                pfx = self.tmpl.rstrip("/")
                if norm != pfx and not norm.startswith(pfx + "/"):
                    return None
                return {"filename": path[len(self.tmpl.rstrip("/")) + 1:]}
            return None
        return None


class MApp:
    def __init__(self) -> None:
        self.resources: list[MRes] = []
        self.domains: list[tuple[str, "MApp"]] = []

    def resolve(self, path: str, method: str, host: str):
        """-> list of acceptable outcomes (set-valued because of the domain ambiguity)."""
        base = self._resolve_index(path, method, host)
        outs = [base]
        for dom, sub in self.domains:
            if domain_rule_matches(dom, host):
                r = sub.resolve(path, method, host)
                # a matching domain rule hands the request to its sub-application, whose answer (also a 404/405) is
                # final - either before the index is consulted (code) or after it found nothing (documentation)
                outs = list(r) + [base if base[0] == "ok" else y for y in r]
                break
        return outs

    @staticmethod
    def _merge_405(a, b):
        if b[0] == "ok":
            return b
        allowed = set()
        for x in (a, b):
            if x[0] == 405:
                allowed |= x[1]
        return (405, frozenset(allowed)) if allowed else (404, frozenset())

    def _resolve_index(self, path: str, method: str, host: str):
        allowed: set[str] = set()
        part = path
        while part:
            for r in sorted((r for r in self.resources if r.key == part), key=lambda r: r.order):
                if r.kind == "subapp":
                    assert r.sub is not None
                    res = r.sub.resolve(path, method, host)[0]
                    return res  # captured by the sub-application, whatever it answers
                mi = r.match(path)
                if mi is None:
                    continue
                if r.kind == "static":
                    if method in ("GET", "HEAD"):
                        return ("ok", r.routes["GET"], mi)
                    allowed |= {"GET", "HEAD"}
                    continue
                if method in r.routes:
                    return ("ok", r.routes[method], mi)
                if "*" in r.routes:
                    return ("ok", r.routes["*"], mi)
                allowed |= set(r.routes)
            if part == "/":
                break
            part = part.rpartition("/")[0] or "/"
        if allowed:
            return (405, frozenset(allowed))
        return (404, frozenset())


# ------------------------------------------------------------------ build both from one description
class Builder:
    def __init__(self) -> None:
        self.ids = itertools.count(1)
        self.handlers: dict[int, object] = {}
        self.static_dir = tempfile.mkdtemp(prefix="c14_")
        self.route_objs: dict[int, object] = {}

    def handler(self, hid: int):
        async def h(request):  # pragma: no cover - never called
            raise AssertionError
        h.hid = hid  # type: ignore[attr-defined]
        return h

    def build(self, desc: list, prefix: str = ""):
        from aiohttp import web

        app = web.Application()
        model = MApp()
        last_tmpl = None
        for entry in desc:
            kind = entry[0]
            order = len(model.resources)
            try:
                if kind == "route":
                    _, method, tmpl = entry
                    hid = next(self.ids)
                    h = self.handler(hid)
                    if method == "GET":
                        route = app.router.add_get(tmpl, h)
                    else:
                        route = app.router.add_route(method, tmpl, h)
                    self.route_objs[hid] = route
                    if model.resources and last_tmpl == tmpl and model.resources[-1].kind in ("plain", "dyn"):
                        mr = model.resources[-1]
                        if method.upper() in mr.routes or "*" in mr.routes:
                            raise Violation("duplicate-route-accepted", f"add_route({method!r}, {tmpl!r}) was accepted although {sorted(mr.routes)} "
                                            f"are registered on that resource: the earlier handler is silently replaced (documented: RuntimeError)")
                    else:
                        mr = MRes("dyn" if "{" in tmpl else "plain", prefix + tmpl, order)
                        model.resources.append(mr)
                    mr.routes[method.upper()] = hid  # (methods are case-insensitive at registration: 'get' is GET)
                    if method == "GET":
                        mr.routes.setdefault("HEAD", hid)
                    last_tmpl = tmpl
                elif kind == "static":
                    _, pfx = entry
                    hid = next(self.ids)
                    app.router.add_static(pfx, self.static_dir)
                    mr = MRes("static", prefix + pfx, order)
                    mr.routes["GET"] = hid
                    mr.routes["HEAD"] = hid
                    model.resources.append(mr)
                    last_tmpl = None
                elif kind == "subapp":
                    _, pfx, subdesc = entry
                    sub_app, sub_model = self.build(subdesc, prefix + pfx)
                    app.add_subapp(pfx, sub_app)
                    mr = MRes("subapp", prefix + pfx, order)
                    mr.sub = sub_model
                    model.resources.append(mr)
                    last_tmpl = None
                elif kind == "domain":
                    _, host, subdesc = entry
                    sub_app, sub_model = self.build(subdesc, prefix)
                    app.add_domain(host, sub_app)
                    model.domains.append((host, sub_model))
                    last_tmpl = None
            except (RuntimeError, ValueError):
                continue  # e.g. method registered twice, route after '*': construction refused, nothing added
            except Violation:
                raise
            except Exception as e:  # noqa: BLE001 - a refusal is a ValueError/RuntimeError; anything else is the router tripping over a legal table
                raise Violation(hyp.exc_key(e, "table-construction-raised"), f"registering {entry!r} under prefix {prefix!r} raised {e!r}")
        return app, model

    def cleanup(self) -> None:
        import shutil

        shutil.rmtree(self.static_dir, ignore_errors=True)


def request_paths(extra: bool) -> list[str]:
    def q(s: str) -> str:
        return s.replace(" ", "%20").replace("é", "%C3%A9")

    paths = {"/"}
    segs = [q(s) for s in SEGS] + ["1", "12", "as", "pa"]
    for n in (1, 2, 3):
        for combo in itertools.product(segs, repeat=n):
            if n == 3 and not extra and (combo[0] not in ("a",) or combo[1] not in ("a", "b", "1", "a%20b") or combo[2] not in ("b", "1")):
                continue
            if n == 2 and not extra and combo[0] not in ("a", "b", "ab", "a%20b", "%C3%A9", "1"):
                continue
            p = "/" + "/".join(combo)
            paths.add(p)
            if n <= 2:
                paths.add(p + "/")
    paths |= {"/a//b", "/a/%2F/b", "/a%2Fb", "/a%252Fb", "/%41", "/%61", "/a/%7Bx%7D", "/a/{x}", "/a/b/c/d", "/a/%25", "/A", "/a/", "/a/b/",
              "/a%20b/1", "/%C3%A9/1", "/a.b/x", "/ab/a/b", "/a/1/2/3", "/p1", "/a/p1", "/a/1s", "/a/ps",
              # dot segments: a sibling whose name merely starts with a mount prefix, and paths that leave and re-enter it
              "/a/../ab/b", "/a/../ab", "/a/../as", "/s/../sx/b", "/a/b/../../ab/a", "/a/./b", "/a/../a/b", "/a/b/../b", "/a/..", "/a/b/.."}
    return sorted(paths)


def run_table(rec: Rec, desc: list, extra_paths: bool = False, label: str = "table") -> None:
    from aiohttp import web
    from aiohttp.test_utils import make_mocked_request

    loop = new_loop()
    b = Builder()
    try:
        try:
            app, model = b.build(desc)
        except Exception as e:  # noqa: BLE001
            raise Violation(hyp.exc_key(e, "table-construction-raised"), f"{type(e).__name__}: {e!r} for table {desc}")
        app.freeze()
        keys = [r.key for r in model.resources]
        overlapping = len(model.resources) >= 2 and (len(set(keys)) < len(keys) or any(k1 != k2 and (k2.startswith(k1.rstrip("/") + "/") or k1 == "/") for k1 in keys for k2 in keys))

        async def go():
            for path in request_paths(extra_paths):
                npath = norm_path(path)
                for method in METHODS:
                    for host in HOSTS if model.domains else HOSTS[:1]:
                        req = make_mocked_request(method, path, headers={"Host": host}, app=app)
                        try:
                            mi = await app.router.resolve(req)
                        except Exception as e:  # noqa: BLE001
                            raise Violation(hyp.exc_key(e, "resolve-raised"), f"{type(e).__name__}: {e!r} for {method} {path} on {desc}")
                        exc = mi.http_exception
                        if exc is None:
                            got = ("ok", getattr(mi.handler, "hid", None) if not hasattr(mi.route, "_resource") or getattr(mi.handler, "hid", None) else None, dict(mi))
                            if got[1] is None:
                                # static route: identify by resource prefix
                                got = ("ok", "static", dict(mi))
                        elif exc.status == 405:
                            got = (405, frozenset(exc.allowed_methods))
                        else:
                            got = (exc.status, frozenset())
                        wants = model.resolve(npath, method, host)
                        ok = False
                        for w in wants:
                            if w[0] == "ok" and got[0] == "ok":
                                if (got[1] == "static" and isinstance(w[1], int) and "filename" in w[2]) or got[1] == w[1]:
                                    if got[1] == "static" or got[2] == w[2]:
                                        ok = True
                            elif w[0] == got[0] and (w[0] != 405 or w[1] == got[1]):
                                ok = True
                        rec.case((label, str(desc), path, method, host), overlapping, [label] + (["overlap"] if overlapping else []))
                        if not ok:
                            kind = "wrong-handler" if got[0] == "ok" and wants[0][0] == "ok" else f"{got[0]}-instead-of-{wants[0][0]}"
                            if got[0] == 405 and wants[0][0] == 405:
                                kind = "allowed-methods"
                            raise Violation(f"dispatch/{kind}", f"{method} {path} (matched as {npath!r}) host={host}: router -> {got}, documented rule -> {wants[:2]}; table {desc}")
            # url_for round trip
            for hid, route in b.route_objs.items():
                res = route.resource
                info = res.get_info()
                if "path" in info and "formatter" not in info and "prefix" not in info:
                    # a plain resource: the URL it names must be one a client can request, and requesting it must get there
                    try:
                        url = res.url_for()
                    except Exception as e:  # noqa: BLE001
                        raise Violation(hyp.exc_key(e, "url_for-raised"), f"url_for() on plain resource {info['path']!r}: {e!r}")
                    target = str(url)
                    rec.case(("url_for", info["path"], ""), True, ["url_for", "url_for-plain"])
                    if any(c in target for c in " \t\r\n") or not target.isascii():
                        raise Violation("url_for-not-inverse", f"url_for() of plain resource {info['path']!r} = {target!r}: not a request target (unquoted characters); table {desc}")
                    req = make_mocked_request(route.method if route.method != "*" else "GET", target, headers={"Host": HOSTS[0]}, app=app)
                    mi = await app.router.resolve(req)
                    if mi.http_exception is not None:
                        w = model.resolve(norm_path(url.raw_path), req.method, HOSTS[0])[0]
                        if w[0] == "ok":
                            raise Violation("url_for-not-inverse", f"url_for() of plain resource {info['path']!r} = {target!r} resolves to {mi.http_exception.status}; table {desc}")
                    continue
                if "formatter" in info:
                    names = re.findall(r"\{([_a-zA-Z][_a-zA-Z0-9]*)\}", info["formatter"])
                    tmpl = res._orig_path if hasattr(res, "_orig_path") else ""
                    for val in ("v", "a b", "é", "a.b", "1", "x%y", "a+b", "q?r", "h#i"):
                        params = {n: val for n in names}
                        if re.search(r"\{[_a-zA-Z][_a-zA-Z0-9]*:", tmpl):
                            params = {n: "12" for n in names}  # regex-constrained: use a value the usual constraints accept
                        try:
                            url = res.url_for(**params)
                        except Exception as e:  # noqa: BLE001
                            raise Violation(hyp.exc_key(e, "url_for-raised"), f"url_for({params}) on {tmpl}: {e!r}")
                        if any(c in str(url) for c in " \t\r\n") or not str(url).isascii():
                            raise Violation("url_for-not-inverse", f"url_for({params}) of {tmpl!r} = {str(url)!r}: not a request target (unquoted characters); table {desc}")
                        req = make_mocked_request(route.method if route.method != "*" else "GET", str(url), headers={"Host": HOSTS[0]}, app=app)
                        mi = await app.router.resolve(req)
                        rec.case(("url_for", tmpl, val), True, ["url_for"])
                        if mi.http_exception is not None:
                            w = model.resolve(norm_path(url.raw_path), req.method, HOSTS[0])[0]
                            if w[0] == "ok":
                                raise Violation("url_for-not-inverse", f"url_for({params}) of {tmpl!r} = {url} resolves to {mi.http_exception.status}; table {desc}")
                            continue
                        if getattr(mi.handler, "hid", None) == hid and dict(mi) != params:
                            raise Violation("url_for-params-differ", f"url_for({params}) of {tmpl!r} = {url} resolves back with {dict(mi)}")

        loop.drive(go())
    finally:
        b.cleanup()
        loop.shutdown()


# ------------------------------------------------------------------ generators
TEMPLATES = ["/", "/a", "/a/", "/a/b", "/ab", "/a b", "/é", "/a.b/x", "/a/{x}", "/{x}", "/a/{x}/b", "/a/p{x}", "/a/{x}s", "/a/{x:\\d+}", "/{t:.*}", "/a/{t:.*}", "/a b/{x}",
             "/é/{x}", "/a/{x}/{y}", "/b/{x:[ab]+}", "/a/b/{x}"]


@st.composite
def tables(draw, depth: int = 0):
    n = draw(st.integers(1, 6 if depth == 0 else 3))
    entries = []
    for _ in range(n):
        k = draw(st.integers(0, 9))
        if k <= 6 or depth >= 2:
            entries.append(("route", draw(st.sampled_from(["GET", "GET", "POST", "*", "post", "Post"])), draw(st.sampled_from(TEMPLATES))))  # (other spellings of GET: unit method-case)
        elif k == 7:
            entries.append(("static", draw(st.sampled_from(["/a", "/s", "/a/b", "/a b", "/é/s"]))))
        elif k == 8:
            entries.append(("subapp", draw(st.sampled_from(["/a", "/b", "/a/b", "/ab", "/a b", "/é"])), draw(tables(depth + 1))))
        elif depth <= 1:
            entries.append(("domain", draw(st.sampled_from(["example.com", "example.com", "*.example.com", "a.*"])), draw(tables(2))))
    return entries


def body(rec: Rec, desc: list) -> None:
    run_table(rec, desc)


def unit_hyp(rec: Rec, n: int, offset: int) -> None:
    hyp.run(rec, tables(), body, n, seed_offset=offset, max_root_causes=6)


def unit_orders(rec: Rec, shard: int, nshards: int, size: int) -> None:
    """All tables of `size` routes from the template menu (one method mix), in ALL registration orders."""
    menu = ["/a", "/a/{x}", "/{x}", "/a/p{x}", "/a/{x:\\d+}", "/{t:.*}", "/a/b", "/a/{x}/b", "/a b/{x}", "/a/{x}s"]
    i = -1
    for combo in itertools.permutations(menu, size):
        i += 1
        if i % nshards != shard:
            continue
        if rec.expired():
            rec.exhaustive = False
            return
        methods = ["GET", "POST", "GET"]
        desc = [("route", methods[k % 3], t) for k, t in enumerate(combo)]
        try:
            run_table(rec, desc, label="orders")
        except Violation as v:
            rec.fail(v.key, v.msg, desc)
    rec.exhaustive = True


def check_redirect(rec2: Rec, case: dict) -> None:
    """normalize_path_middleware never redirects off-site (request sent over an in-memory connection)."""
    from aiohttp import web
    from vlib import memnet, refhttp

    loop = new_loop()
    target = case.get("origin", "") + case["path"]  # origin-form, or absolute-form with any scheme / authority
    try:
        async def go():
            async def h(request):
                return web.Response(text="ok")

            mw = web.normalize_path_middleware(append_slash=case["append"], remove_slash=case["remove"], merge_slashes=case["merge"])
            app = web.Application(middlewares=[mw])
            for t in case["routes"]:
                try:
                    app.router.add_get(t, h)
                except (RuntimeError, ValueError):
                    pass
            runner = web.AppRunner(app, access_log=None)
            await runner.setup()
            proto = runner.server()
            peer = memnet.ScriptPeer()
            memnet.connect_protocols(loop, [], peer, proto)
            peer.send(b"GET " + target.encode("utf-8") + b" HTTP/1.1\r\nHost: site.example\r\nConnection: close\r\n\r\n")
            for _ in range(200):
                await asyncio.sleep(0)
                if peer.lost:
                    break
            await runner.cleanup()
            resps, problem = refhttp.frame_responses(bytes(peer.received), closed=True)
            if problem or not resps:
                return
            r = resps[0]
            if 300 <= r.status < 400:
                loc = (r.get(b"location") or b"").decode("utf-8", "replace")
                b_like = re.sub(r"[\t\r\n]", "", loc).replace("\\", "/")
                for form in (loc, b_like):
                    if form.startswith("//") or re.match(r"^[A-Za-z][A-Za-z0-9+.-]*:", form) or not form.startswith("/"):
                        raise Violation("redirect-off-site", f"{target!r} redirected to {loc!r} (browser reading {form!r}); routes {case['routes']}")

        loop.drive(go(), max_time=100)
    finally:
        loop.shutdown()
    rec2.case(case, case["path"].startswith(("//", "/\\", "/%")) or bool(case.get("origin")), ["redirect"] + (["redirect-absolute-form"] if case.get("origin") else []))


def unit_redirects(rec: Rec, n: int, offset: int) -> None:
    seg = st.sampled_from(["a", "b", "evil.com", "\\evil.com", "%2F", "%5Cevil.com", "\t", "%09", "@evil.com", ".", "..", "%2e%2e", "a b"])
    strat = st.fixed_dictionaries({
        "append": st.booleans(), "remove": st.just(False), "merge": st.booleans(),
        "routes": st.lists(st.sampled_from(["/a/", "/a", "/{x}/", "/{x}", "/{t:.*}/", "/evil.com/", "/{x}/{y}/", "/a/b"]), min_size=1, max_size=3),
        "path": st.tuples(st.sampled_from(["/", "//", "///", "/\\", "/%2F", "/%5C", "/\t/", "//%2F"]), st.lists(seg, max_size=3), st.sampled_from(["", "/", "//"])).map(
            lambda t: t[0] + "/".join(t[1]) + t[2]),
        # the request target in absolute-form (RFC 9112 3.2.2): any scheme, any authority - the redirect stays a site-relative path
        "origin": st.sampled_from(["", "", "", "http://site.example", "http://evil.example", "https://evil.example:444", "ws://evil.example", "wss://evil.example",
                                   "ftp://evil.example", "HTTP://evil.example", "x-y.z+1://evil.example", "http://u:p@evil.example"]),
    })
    hyp.run(rec, strat, check_redirect, n, seed_offset=offset, max_root_causes=3)


def unit_method_case(rec: Rec) -> None:
    """One resource, two or three registrations, every spelling of the methods: a second registration of a method already
    there is refused (documented), it never silently replaces the first handler."""
    # (no plain "GET" here: the harness registers that one with add_get(), which adds a HEAD route first and leaves it
    # behind when the GET registration is then refused - a wart of its own, not the subject)
    spellings = ["get", "Get", "gET", "POST", "post", "*"]
    for tmpl in ("/a", "/a/{x}"):
        for k in (2,):
            for ms in itertools.product(spellings, repeat=k):
                desc = [("route", m, tmpl) for m in ms]
                try:
                    run_table(rec, desc, label="method-case")
                except Violation as v:
                    rec.fail(v.key, v.msg, desc)
    rec.exhaustive = True


def units(tier: str, seed: int) -> list[Unit]:
    n = 12 if tier == "quick" else 1200
    us = [Unit(f"tables{i}", unit_hyp, {"n": n, "offset": i}) for i in range(8)]
    ns = 4 if tier == "quick" else 8
    for sh in range(ns):
        us.append(Unit(f"orders{sh}", unit_orders, {"shard": sh, "nshards": ns, "size": 2 if tier == "quick" else 3}))
    us.append(Unit("method-case", unit_method_case, {}))
    us.append(Unit("redirects0", unit_redirects, {"n": 300 if tier == "quick" else 20000, "offset": 50}))
    us.append(Unit("redirects1", unit_redirects, {"n": 300 if tier == "quick" else 20000, "offset": 51}))
    return us


def replay(rec: Rec, case) -> None:
    if isinstance(case, dict):
        check_redirect(rec, case)
        return
    run_table(rec, [tuple(e) for e in case])
