"""C02 Wire round trip: ClientSession <-> web.Application over in-memory transports."""
from __future__ import annotations

import asyncio
import io
import json
import logging

from hypothesis import strategies as st

from vlib import hyp, memnet
from vlib.detloop import Quiescent, new_loop
from vlib.runner import Rec, Unit, Violation

PROPERTY = "C02"
LEVEL = "exploration"
RULE = (
    "case = one request/response exchange (plus a follow-up request on the same session): method, URL shape (path "
    "segments incl. percent-encoded, repeated query keys), extra headers, cookies, request body kind (none, bytes, str, "
    "BytesIO, async generator, FormData url-encoded / multipart, JSON) with sizes around 2 KiB / 64 KiB thresholds, "
    "chunked, compress, Expect: 100-continue, HTTP/1.0 or 1.1; response status (200..500, 204, 304), reason, headers "
    "incl. repeated Set-Cookie, body kind (Response bytes/text, StreamResponse with k writes, payload, async iterable, "
    "FileResponse), compression, chunked, force_close; independent segmentation plans for both directions.  Oracle: "
    "round trip (handler-observed request == issued, caller-observed response == returned, documented empty-body "
    "rules), keep-alive agreement at quiescence (client pooled <=> server kept open) and reuse by the follow-up.  "
    "Non-trivial = a body in at least one direction together with a non-trivial segmentation or a threshold size.  "
    "distinct = canonical case."
)
ASSUMPTIONS = [
    "FileResponse runs through the documented AIOHTTP_NOSENDFILE=1 fallback with an inline executor",
    "virtual time: the exchange must complete without any timer having to fire except those aiohttp arms itself",
]

for _n in ("aiohttp.server", "aiohttp.access", "aiohttp.web", "aiohttp.client", "aiohttp.internal"):
    logging.getLogger(_n).disabled = True

SIZES = [0, 1, 2047, 2048, 2049, 65535, 65536, 65537]
EMPTY_STATUSES = {204, 304}


def blob(n: int, salt: int = 0) -> bytes:
    return bytes(((i * 7 + salt) % 251) for i in range(n)) if n < 4096 else (bytes(range(256)) * (n // 256 + 1))[:n]


def text_blob(n: int) -> str:
    return ("héllo wörld ✓ " * (n // 10 + 1))[:n]


def execute(case: dict) -> dict:
    import aiohttp
    from aiohttp import web
    from yarl import URL

    loop = new_loop()
    loop.max_iters = 300000  # cases are small: a busy loop is reported after 3e5 iterations, not 3e6
    stats: dict = {"body": False}
    tmpfile = None
    try:
        rq, rs = case["req"], case["resp"]
        seen: list[dict] = []
        resp_body = blob(rs.get("size", 0), 3) if rs["kind"] != "text" else text_blob(rs.get("size", 0)).encode()
        if rs["kind"] == "nobody":
            resp_body = b""

        async def handler(request: web.Request):
            obs = {
                "method": request.method, "path": request.rel_url.path, "raw_path": request.rel_url.raw_path,
                "query": list(request.rel_url.query.items()),
                "headers": [(k.decode("latin-1"), v.decode("utf-8", "surrogateescape")) for k, v in request.raw_headers],
                "cookies": dict(request.cookies), "version": tuple(request.version),
            }
            if rq["body"] in ("form", "multipart"):
                data = await request.post()
                from urllib.parse import unquote

                obs["post"] = sorted((k, v if isinstance(v, str) else ("file", unquote(v.filename), v.file.read())) for k, v in data.items())
            elif rq.get("handler_reads", "all") == "none" and not request.path.endswith("/second"):
                obs["body_unread"] = True  # answers without looking at the body (the server then drains or closes)
            elif rq.get("handler_reads", "all") == "some" and not request.path.endswith("/second"):
                obs["body_unread"] = True
                await request.content.read(1)
            else:
                obs["body"] = await request.read()
            seen.append(obs)
            if request.path.endswith("/second"):
                if case.get("second_delay"):
                    await asyncio.sleep(case["second_delay"])  # virtual time: longer than a small keep-alive timeout
                return web.Response(text="second")
            kind = rs["kind"]
            hdrs = [(k, v) for k, v in rs.get("headers", [])]
            status, reason = rs["status"], rs.get("reason")
            empty = status in EMPTY_STATUSES
            if kind in ("bytes", "text", "payload", "aiter", "nobody"):
                kw = {}
                if kind == "nobody":
                    pass  # web.Response() with no body argument at all
                elif kind == "bytes":
                    kw["body"] = resp_body
                elif kind == "text":
                    kw["text"] = resp_body.decode()
                elif kind == "payload":
                    kw["body"] = io.BytesIO(resp_body)
                else:
                    async def gen():
                        step = max(1, len(resp_body) // 3)
                        for i in range(0, len(resp_body), step):
                            yield resp_body[i:i + step]
                            await asyncio.sleep(0)
                    kw["body"] = gen()
                resp: web.StreamResponse = web.Response(status=status, reason=reason, **kw)
            elif kind == "file":
                resp = web.FileResponse(case["_file"], status=status, reason=reason)
            else:
                resp = web.StreamResponse(status=status, reason=reason)
            for k, v in hdrs:
                resp.headers.add(k, v)
            for i, (ck, cv) in enumerate(rs.get("set_cookies", [])):
                resp.set_cookie(ck, cv)
            if rs.get("compress"):
                resp.enable_compression()
            if rs.get("chunked") and kind != "file" and rs.get("chunked_hdr"):
                resp.headers["Transfer-Encoding"] = "chunked"  # the handler's own spelling (copied from an upstream response)
            elif rs.get("chunked") and kind != "file":
                resp.enable_chunked_encoding()
            if rs.get("force_close"):
                resp.force_close()
            if kind == "stream":
                if rs.get("declare_length") and not rs.get("chunked") and not rs.get("compress"):
                    resp.content_length = len(resp_body)
                await resp.prepare(request)
                k = rs.get("writes", 2)
                last = b""
                # (the handler writes its body whatever the method / status: a HEAD, 204 or 304 response is cut down to
                # its header section by the server, not by every application)
                if True:
                    step = max(1, -(-len(resp_body) // max(1, k)))
                    pieces = [resp_body[i:i + step] for i in range(0, len(resp_body), step)]
                    if rs.get("eof_data") and pieces:
                        last = pieces.pop()  # the final piece is handed to write_eof(data)
                    for piece in pieces:
                        await resp.write(piece)
                        if rs.get("yield_between"):
                            await asyncio.sleep(0)
                await resp.write_eof(last)
            return resp

        box: dict = {}

        async def main():
            app = web.Application(client_max_size=1 << 22)
            app.router.add_route("*", "/{tail:.*}", handler)
            runner = web.AppRunner(app, access_log=None, **({"keepalive_timeout": case["keepalive_timeout"]} if case.get("keepalive_timeout") else {}))
            await runner.setup()
            server = runner.server
            log: list = []
            MC = memnet.make_connector_class()
            server_sides: list = []

            def pf(req, idx):
                return server(), memnet.Plan(case.get("c2s") or []), memnet.Plan(case.get("s2c") or [])

            box["conn"] = None

            conn = MC(pf, log=log)
            box["conn"] = conn
            version = aiohttp.HttpVersion10 if rq.get("http10") else aiohttp.HttpVersion11
            jar = aiohttp.DummyCookieJar()
            session = aiohttp.ClientSession(connector=conn, version=version, cookie_jar=jar, auto_decompress=True)
            try:
                # ---- build the request
                url = "http://example.com" + rq["path"]
                kwargs: dict = {"headers": [(k, v) for k, v in rq.get("headers", [])], "allow_redirects": False}
                if rq.get("params"):
                    kwargs["params"] = [(k, v) for k, v in rq["params"]]
                if rq.get("cookies"):
                    kwargs["cookies"] = dict(rq["cookies"])
                body_kind = rq["body"]
                n = rq.get("size", 0)
                payload = blob(n, 1)
                expect_body: bytes | None = b""
                expect_post = None
                if body_kind == "bytes":
                    kwargs["data"] = payload
                    expect_body = payload
                elif body_kind == "str":
                    s = text_blob(n)
                    kwargs["data"] = s
                    expect_body = s.encode()
                elif body_kind == "bytesio":
                    kwargs["data"] = io.BytesIO(payload)
                    expect_body = payload
                elif body_kind == "agen":
                    async def agen():
                        step = max(1, n // 3)
                        for i in range(0, n, step):
                            yield payload[i:i + step]
                            await asyncio.sleep(0)
                    kwargs["data"] = agen()
                    expect_body = payload
                elif body_kind == "json":
                    obj = {"a": [1, 2, "é"], "n": n, "s": text_blob(min(n, 500))}
                    kwargs["json"] = obj
                    expect_body = json.dumps(obj).encode()
                elif body_kind == "form":
                    fields = [("f1", text_blob(min(n, 300))), ("f2", "x&y=z"), ("é", "ü")]
                    fd = aiohttp.FormData()
                    for k, v in fields:
                        fd.add_field(k, v)
                    kwargs["data"] = fd
                    expect_post = sorted(fields)
                    expect_body = None
                elif body_kind == "multipart":
                    fd = aiohttp.FormData()
                    fd.add_field("f1", "value1")
                    fd.add_field("file", payload, filename="a b.bin", content_type="application/octet-stream")
                    kwargs["data"] = fd
                    expect_post = sorted([("f1", "value1"), ("file", ("file", "a b.bin", payload))])
                    expect_body = None
                if rq.get("chunked") and rq.get("chunked_hdr") and body_kind not in ("none",):
                    # the other spelling: the caller sets the header itself (a proxy copying headers does); what is
                    # announced is how the body has to go out
                    kwargs["headers"] = kwargs["headers"] + [("Transfer-Encoding", "chunked")]
                elif rq.get("chunked") and (body_kind not in ("none",) or rq.get("chunked_nobody")):
                    kwargs["chunked"] = True  # (also asked for without any body: then there is simply nothing to frame)
                elif rq.get("chunked_false") and body_kind not in ("none",):
                    kwargs["chunked"] = False  # explicit: length-delimited whenever the size is known
                if rq.get("compress") and body_kind not in ("none", "form", "multipart"):
                    kwargs["compress"] = rq["compress"]
                if rq.get("expect100") and body_kind != "none":
                    if rq.get("expect_hdr"):
                        # the other spelling: the caller sets the header itself (field values are case-insensitive here)
                        kwargs["headers"] = kwargs["headers"] + [("Expect", rq["expect_hdr"])]
                    else:
                        kwargs["expect100"] = True
                if rq.get("via_proxy"):
                    # an HTTP proxy for an http:// URL: the request line carries the absolute URL (the in-memory peer is the
                    # aiohttp server itself, which accepts absolute-form)
                    kwargs["proxy"] = "http://proxy.example:3128"
                stats["body"] = (body_kind != "none" and n > 0) or rs.get("size", 0) > 0

                resp = await session.request(rq["method"], url, **kwargs)
                got_status, got_reason = resp.status, resp.reason
                got_headers = [(k.decode("latin-1"), v.decode("utf-8", "surrogateescape")) for k, v in resp.raw_headers]
                got_body = await resp.read()
                resp.release()
                box["first"] = (got_status, got_reason, got_headers, got_body, tuple(resp.version) if resp.version else None)

                # ---- checks: request as seen by the handler
                if len(seen) != 1:
                    raise Violation("handler-calls", f"handler called {len(seen)} times for one request")
                o = seen[0]
                issued = URL(url)
                if rq.get("params"):
                    issued = issued.extend_query(kwargs["params"]) if hasattr(issued, "extend_query") else issued.with_query(kwargs["params"])
                if o["method"] != rq["method"].upper():
                    raise Violation("request-method", f"sent {rq['method']!r}, handler saw {o['method']!r}")
                if o["path"] != issued.path:
                    raise Violation("request-path", f"sent path {issued.path!r} (raw {issued.raw_path!r}), handler saw {o['path']!r} (raw {o['raw_path']!r})")
                if o["query"] != list(issued.query.items()):
                    raise Violation("request-query", f"sent {list(issued.query.items())}, handler saw {o['query']}")
                oh = o["headers"]
                for k, v in rq.get("headers", []):
                    if (k.lower(), v) not in [(a.lower(), b) for a, b in oh]:
                        raise Violation("request-header-lost", f"header {k}: {v!r} not seen by the handler: {oh}")
                if rq.get("cookies") and o["cookies"] != dict(rq["cookies"]):
                    raise Violation("request-cookies", f"sent {rq['cookies']}, handler saw {o['cookies']}")
                if expect_body is not None and not o.get("body_unread") and o.get("body") != expect_body:
                    raise Violation(f"request-body/{body_kind}", f"sent {len(expect_body)} bytes, handler read {len(o.get('body') or b'')} bytes "
                                    f"(first diff at {_first_diff(expect_body, o.get('body') or b'')})")
                if expect_post is not None and o.get("post") != expect_post:
                    raise Violation(f"request-form/{body_kind}", f"sent {str(expect_post)[:120]}, handler saw {str(o.get('post'))[:120]}")
                want_ver = (1, 0) if rq.get("http10") else (1, 1)
                if o["version"] != want_ver:
                    raise Violation("request-version", f"sent {want_ver}, handler saw {o['version']}")

                # ---- checks: response as seen by the caller
                if got_status != rs["status"]:
                    raise Violation("response-status", f"returned {rs['status']}, caller saw {got_status}")
                if rs.get("reason") is not None and got_reason != rs["reason"]:
                    raise Violation("response-reason", f"returned {rs['reason']!r}, caller saw {got_reason!r}")
                gh = [(a.lower(), b) for a, b in got_headers]
                for k, v in rs.get("headers", []):
                    if (k.lower(), v) not in gh:
                        raise Violation("response-header-lost", f"header {k}: {v!r} not seen by the caller: {got_headers}")
                sc = [b for a, b in gh if a == "set-cookie"]
                if len(sc) != len(rs.get("set_cookies", [])):
                    raise Violation("response-set-cookie", f"{len(rs.get('set_cookies', []))} cookies set, caller saw Set-Cookie x{len(sc)}: {sc}")
                must_empty = rq["method"].upper() == "HEAD" or rs["status"] in EMPTY_STATUSES
                want_body = b"" if must_empty else resp_body
                if got_body != want_body:
                    raise Violation(f"response-body/{rs['kind']}", f"returned {len(want_body)} bytes, caller read {len(got_body)} bytes "
                                    f"(first diff at {_first_diff(want_body, got_body)}); headers {got_headers}")

                # ---- keep-alive agreement
                for _ in range(5):
                    await asyncio.sleep(0)
                ct, st_ = conn.transports[0]
                if seen and seen[0].get("body_unread"):
                    # the rest of the unread body is still on its way: quiescence = all of it delivered (the server reads and
                    # drops it while it "lingers") or either side has given up
                    for _ in range(5000):
                        if not ct.out or st_.closing or ct.closed:
                            break
                        await asyncio.sleep(0)
                    for _ in range(10):
                        await asyncio.sleep(0)
                pooled = any(p.transport is ct for q in conn._conns.values() for p, _t in q)
                server_open = not st_.closing
                client_open = not ct.closing
                box["ka"] = (pooled, server_open, client_open)
                # the server's own announcement: a response that does not say "close" (HTTP/1.1) / says "keep-alive" (HTTP/1.0)
                # promises that the connection stays usable, so the server must not be the one that then closes it (no time
                # has passed: the keep-alive timer cannot have expired, and the whole request has been delivered)
                conn_tokens = {t.strip().lower() for k, v in got_headers if k.lower() == "connection" for t in v.split(",")}
                ver = box["first"][4] or (1, 1)
                announced_ka = ("close" not in conn_tokens) if ver >= (1, 1) else ("keep-alive" in conn_tokens)
                closers = [name for _seq, name, what, _kw in log if what in ("close", "abort")]
                if announced_ka and not server_open and closers and closers[0] == st_.name and not ct.out:
                    raise Violation("server-closed-after-announcing-keepalive",
                                    f"the response ({got_status}, Connection: {sorted(conn_tokens)}) announced a persistent connection, the request was delivered "
                                    f"completely, and the server closed the connection first (handler read the body: {rq.get('handler_reads', 'all')}; "
                                    f"request {rq['method']} {rq['body']} {rq.get('size')}B chunked={rq.get('chunked')})")
                if pooled != server_open:
                    raise Violation("keepalive-disagreement", f"client pooled the connection={pooled} but server kept it open={server_open} "
                                    f"(client transport open={client_open}; request {rq['method']} http10={rq.get('http10')}, response {rs['status']} {rs['kind']} "
                                    f"force_close={rs.get('force_close')}; response headers {got_headers})")
                # ---- follow-up request: reuse iff both kept the connection
                r2 = await session.get("http://example.com/x/second", **({"proxy": kwargs["proxy"]} if "proxy" in kwargs else {}))
                t2 = await r2.text()
                r2.release()
                if r2.status != 200 or t2 != "second":
                    raise Violation("followup-failed", f"follow-up answered {r2.status} {t2!r}")
                reused = conn.attempts == 1
                if reused != pooled:
                    raise Violation("reuse-mismatch", f"connection reused={reused} although pooled={pooled}")
            finally:
                await session.close()
                await runner.cleanup()

        if rs["kind"] == "file":
            import os
            import tempfile

            fd, tmpfile = tempfile.mkstemp(prefix="c02_", suffix=".bin")
            os.write(fd, resp_body)
            os.close(fd)
            case = dict(case, _file=tmpfile)
        try:
            loop.drive(main(), max_time=600.0)
        except (Quiescent, asyncio.TimeoutError) as q:
            # nothing can happen any more (or only aiohttp's own 300 s total timeout): the exchange hangs
            sig = "other"
            conn = box.get("conn")
            if conn is not None and conn.transports:
                ct, st_ = conn.transports[0]
                wire = bytes(getattr(st_, "sent", b""))
                head = wire.split(b"\r\n\r\n", 1)[0].lower()
                if wire and b"content-length" not in head and b"transfer-encoding" not in head:
                    sig = "eof-delimited-response-but-connection-kept-open"
                elif not wire:
                    sig = "no-response-bytes"
            raise Violation(f"exchange-hangs/{sig}", f"the exchange never completes ({type(q).__name__}); handler calls={len(seen)}, "
                            f"first={str(box.get('first'))[:200]}")
        if loop.exc_contexts:
            ctx = loop.exc_contexts[0]
            e = ctx.get("exception")
            raise Violation(hyp.exc_key(e, "loop-exception") if e else "loop-exception/" + str(ctx.get("message"))[:40], f"{ctx.get('message')}: {e!r}"[:300])
        return stats
    except Violation:
        raise
    except Exception as e:  # noqa: BLE001
        raise Violation(hyp.exc_key(e, "exchange-raised"), f"{type(e).__name__}: {e!r}"[:400])
    finally:
        loop.shutdown()
        if tmpfile:
            import os

            try:
                os.unlink(tmpfile)
            except OSError:
                pass


def _first_diff(a: bytes, b: bytes) -> int:
    for i, (x, y) in enumerate(zip(a, b)):
        if x != y:
            return i
    return min(len(a), len(b))


def body(rec: Rec, case: dict) -> None:
    stats = execute(case)
    rq, rs = case["req"], case["resp"]
    seg = bool(case.get("c2s") or case.get("s2c"))
    thr = rq.get("size", 0) in SIZES[2:] or rs.get("size", 0) in SIZES[2:]
    nt = stats["body"] and (seg or thr)
    labels = [f"req:{rq['body']}", f"resp:{rs['kind']}", f"status:{rs['status']}", f"m:{rq['method']}"]
    if rq.get("http10"):
        labels.append("http10")
    if rs.get("compress"):
        labels.append("resp-compress")
    if rq.get("compress"):
        labels.append("req-compress")
    if rq.get("chunked") or rs.get("chunked"):
        labels.append("chunked")
    if seg:
        labels.append("segmented")
    if rs.get("steered_around_known"):
        labels.append("excluded_known:http10-eof-delimited")
    rec.case(case, bool(nt), labels)


# ------------------------------------------------------------------ generators
HDR_NAMES = ["X-A", "X-B", "Accept-Language", "X-Custom-Header"]
HDR_VALUES = ["v", "a b", "x=y; z", "é", "a,b", "\"quoted\""]


def plans(total_hint: int):
    small = total_hint < 6000
    opts = [st.just([]), st.lists(st.integers(1 if small else 200, 4000), min_size=1, max_size=5), st.just([4096]), st.just([1460])]
    if small:
        opts.append(st.just([1]))
        opts.append(st.lists(st.integers(1, 9), min_size=1, max_size=4))
    return st.one_of(*opts)


@st.composite
def cases(draw):
    method = draw(st.sampled_from(["GET", "POST", "POST", "PUT", "PATCH", "DELETE", "OPTIONS", "HEAD", "FOO"]))
    segs = draw(st.lists(st.sampled_from(["a", "b c", "%41", "é", "x.y", "~", "a+b", "p;q=1", "%2F"]), max_size=3))
    path = "/" + "/".join(segs)
    if method in ("POST", "PUT", "PATCH"):
        body_kind = draw(st.sampled_from(["none", "bytes", "str", "bytesio", "agen", "json", "form", "multipart"]))
    elif method in ("DELETE", "FOO"):
        body_kind = draw(st.sampled_from(["none", "bytes", "str", "bytesio", "agen", "json"]))
    else:
        body_kind = draw(st.sampled_from(["none", "none", "bytes"]))
    size = draw(st.one_of(st.sampled_from(SIZES), st.integers(0, 300)))
    rq = {
        "method": method, "path": path, "body": body_kind, "size": size if body_kind != "none" else 0,
        "headers": draw(st.lists(st.tuples(st.sampled_from(HDR_NAMES), st.sampled_from(HDR_VALUES)), max_size=3)),
        "params": draw(st.lists(st.tuples(st.sampled_from(["k", "k2", "é"]), st.sampled_from(["1", "a b", "", "x&y", "a+b", "#1", "50%", "a/b", "é"])), max_size=3)),
        "cookies": draw(st.sampled_from([[], [], [("c1", "v1")], [("c1", "v1"), ("c2", "a b")]])),
        "chunked": draw(st.booleans()), "compress": draw(st.sampled_from([None, None, "deflate", "gzip"])),
        "expect100": draw(st.integers(0, 4)) == 0, "http10": draw(st.integers(0, 4)) == 0,
    }
    if rq["http10"]:
        rq["chunked"] = False
        rq["expect100"] = False  # Expect is an HTTP/1.1 mechanism
        if body_kind == "agen":
            rq["body"] = "bytes"
    rq["chunked_false"] = (not rq["chunked"]) and draw(st.integers(0, 3)) == 0
    if rq["expect100"]:
        rq["expect_hdr"] = draw(st.sampled_from([None, None, "100-continue", "100-Continue", "100-CONTINUE"]))
    rq["via_proxy"] = draw(st.integers(0, 5)) == 0
    rq["chunked_nobody"] = draw(st.booleans())
    rq["chunked_hdr"] = draw(st.integers(0, 2)) == 0
    if body_kind not in ("none", "form", "multipart"):
        rq["handler_reads"] = draw(st.sampled_from(["all", "all", "all", "none", "some"]))
    if rq["chunked"] and rq["compress"]:
        pass
    status = draw(st.sampled_from([200, 200, 200, 201, 204, 206, 301, 304, 400, 404, 500]))
    kind = draw(st.sampled_from(["bytes", "text", "stream", "stream", "payload", "aiter", "file", "nobody"]))
    rsize = draw(st.one_of(st.sampled_from(SIZES), st.integers(0, 300)))
    rs = {
        "status": status, "reason": draw(st.sampled_from([None, None, "Custom Reason", "OK"])), "kind": kind, "size": rsize,
        "headers": draw(st.lists(st.tuples(st.sampled_from(HDR_NAMES), st.sampled_from(HDR_VALUES[:3] + ["a,b"])), max_size=3)),
        "set_cookies": draw(st.sampled_from([[], [], [("s1", "v1")], [("s1", "v1"), ("s2", "v2")]])),
        "compress": draw(st.integers(0, 3)) == 0, "chunked": draw(st.integers(0, 3)) == 0, "force_close": draw(st.integers(0, 5)) == 0,
        "writes": draw(st.integers(0, 6)), "declare_length": draw(st.booleans()), "yield_between": draw(st.booleans()), "eof_data": draw(st.booleans()),
    }
    rs["chunked_hdr"] = draw(st.integers(0, 2)) == 0
    if kind == "file":
        rs["status"] = 200  # FileResponse chooses 206/304/416 itself from the request headers
    if rq["http10"]:
        rs["chunked"] = False
        # (HTTP/1.0 keep-alive + undeclared length used to hang: fixed, no longer steered around)
    if rs["compress"]:
        rq["headers"] = rq["headers"] + [("Accept-Encoding", draw(st.sampled_from(["gzip", "deflate", "gzip, deflate"])))]
    total = rq["size"] + rsize
    out = {"req": rq, "resp": rs, "c2s": draw(plans(total)), "s2c": draw(plans(total))}
    if draw(st.integers(0, 3)) == 0:
        out["keepalive_timeout"] = draw(st.sampled_from([0.25, 1.0, 30.0]))
        out["second_delay"] = draw(st.sampled_from([0.1, 0.5, 2.0, 45.0]))
    return out


def unit_hyp(rec: Rec, n: int, offset: int) -> None:
    hyp.run(rec, cases(), body, n, seed_offset=offset, max_root_causes=6)


def units(tier: str, seed: int) -> list[Unit]:
    n = 600 if tier == "quick" else 4000
    return [Unit(f"rt{i}", unit_hyp, {"n": n, "offset": i}) for i in range(16)]


def replay(rec: Rec, case: dict) -> None:
    execute(case)
