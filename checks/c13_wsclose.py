"""C13 WebSocket sessions close cleanly in every interleaving."""
from __future__ import annotations

import asyncio
import base64
import hashlib
import itertools
import struct
import warnings

from hypothesis import strategies as st

from vlib import hyp, memnet
from vlib.detloop import new_loop
from vlib.runner import Rec, Unit, Violation

PROPERTY = "C13"
LEVEL = "exploration"
RULE = (
    "A real ClientWebSocketResponse (session.ws_connect over an in-memory connector) or a real web.WebSocketResponse "
    "(inside a handler of web.Server) talks to a scripted RFC 6455 peer on a deterministic virtual-time loop.  A case is "
    "a configuration (side, autoclose, autoping, heartbeat, receive timeout, close timeout, peer answers pings / echoes "
    "close) plus a schedule: a total order of events from the menu {start receive loop, single receive, close(code) "
    "from another task, send (small / 40 KB compressed / 200 KB), ping, peer text/ping/pong/close(code)/garbage frame, peer stops / resumes reading, peer EOF, peer reset, cancel the "
    "receive task, cancel the close task, advance virtual time by a fraction or multiple of the timeouts}, each followed "
    "by a number of loop iterations (0..3 or until idle) before the next event.  exhaustive: all schedules up to length "
    "3 (quick) / 4 (thorough) over the menu for a grid of configurations; sampled: Hypothesis schedules up to length 9 "
    "with partial-step gaps.  After the schedule time is advanced past every timeout, invariants are checked, then the "
    "peer drops the connection and they are checked again.  Oracle: every close() returns and within the close timeout "
    "of virtual time (+1 s rounding); once the session is closed or the connection is gone no receive() stays blocked "
    "and a fresh receive() returns a terminal message or raises; the frames aiohttp wrote (parsed by an independent "
    "frame splitter) contain at most one Close and no data frame after it; ws.closed implies the transport is closing; "
    "close_code is the peer's code when both Close frames were exchanged in a schedule without faults or elapsed time, "
    "1006 when the session ended without any Close frame from the peer.  Non-trivial = close overlaps a pending "
    "receive, a peer close, a timer or a fault.  distinct = (config, schedule)."
)
ASSUMPTIONS = [
    "close-code oracle is three-valued: protocol errors (garbage frames), cancellations and mixed histories are DON'T-CARE",
    "a receive() on a healthy, silent connection without receive timeout may block: only checked after close/loss",
    "write stalls: the peer may stop reading (peer_pause) while 200 KB frames are sent; executor jobs finish k loop iterations later",
]

warnings.simplefilter("ignore")

WS_GUID = b"258EAFA5-E914-47DA-95CA-C5AB0DC85B11"
OP_TEXT, OP_BIN, OP_CLOSE, OP_PING, OP_PONG = 1, 2, 8, 9, 10


def enc_frame(opcode: int, payload: bytes, masked: bool) -> bytes:
    b0 = 0x80 | opcode
    n = len(payload)
    if n < 126:
        head = bytes([b0, n | (0x80 if masked else 0)])
    else:
        head = bytes([b0, 126 | (0x80 if masked else 0)]) + struct.pack("!H", n)
    if masked:
        mask = b"\x11\x22\x33\x44"
        payload = bytes(c ^ mask[i % 4] for i, c in enumerate(payload))
        return head + mask + payload
    return head + payload


def split_frames(buf: bytes) -> tuple[list[tuple[int, bytes, bool]], bytes]:
    """Independent frame splitter for what aiohttp wrote: [(opcode, payload, fin)], rest."""
    out = []
    pos = 0
    while True:
        if len(buf) - pos < 2:
            break
        b0, b1 = buf[pos], buf[pos + 1]
        n = b1 & 0x7F
        p = pos + 2
        if n == 126:
            if len(buf) - p < 2:
                break
            n = struct.unpack("!H", buf[p:p + 2])[0]
            p += 2
        elif n == 127:
            if len(buf) - p < 8:
                break
            n = struct.unpack("!Q", buf[p:p + 8])[0]
            p += 8
        mask = None
        if b1 & 0x80:
            if len(buf) - p < 4:
                break
            mask = buf[p:p + 4]
            p += 4
        if len(buf) - p < n:
            break
        payload = buf[p:p + n]
        if mask:
            payload = bytes(c ^ mask[i % 4] for i, c in enumerate(payload))
        out.append((b0 & 0x0F, bytes(payload), bool(b0 & 0x80)))
        pos = p + n
    return out, buf[pos:]


class _Skip(Exception):
    pass


class Peer(memnet.ScriptPeer):
    """Scripted far end: does the HTTP upgrade, then speaks frames."""

    def __init__(self, world: "World") -> None:
        super().__init__()
        self.world = world
        self.handshake_done = False
        self.hbuf = bytearray()
        self.fbuf = b""
        self.frames: list[tuple[int, bytes, bool]] = []  # frames aiohttp sent, in order
        self.sent_close_codes: list[int] = []
        self.close_on_eof = True

    def data_received(self, data: bytes) -> None:
        w = self.world
        if not self.handshake_done:
            self.hbuf += data
            k = self.hbuf.find(b"\r\n\r\n")
            if k < 0:
                return
            head = bytes(self.hbuf[:k + 4])
            rest = bytes(self.hbuf[k + 4:])
            self.handshake_done = True
            if w.side == "client":
                key = b""
                for line in head.split(b"\r\n"):
                    if line.lower().startswith(b"sec-websocket-key:"):
                        key = line.split(b":", 1)[1].strip()
                acc = base64.b64encode(hashlib.sha1(key + WS_GUID).digest())
                ext = b"Sec-WebSocket-Extensions: permessage-deflate\r\n" if (w.cfg.get("compress") or w.cfg.get("unasked_extension")) else b""
                self.send(b"HTTP/1.1 101 Switching Protocols\r\nUpgrade: websocket\r\nConnection: Upgrade\r\n" + ext + b"Sec-WebSocket-Accept: " + acc + b"\r\n\r\n")
                # a server that talks first: frames right behind the 101, each in a segment of its own, before the client has
                # installed its websocket reader
                def send_early(k: int) -> None:
                    if k == 0 and w.cfg.get("early_huge"):
                        # the first frame is one large message (400 KiB) arriving in 100 KiB reads, most of it before
                        # the reader is installed, none of it a complete message until the last read
                        n = 400 * 1024
                        frame = bytes([0x80 | OP_TEXT, 127]) + n.to_bytes(8, "big") + b"h" * n

                        def piece(j: int) -> None:
                            if j * 102400 < len(frame):
                                self.send(frame[j * 102400:(j + 1) * 102400])
                                w.loop.call_soon(w.loop.call_soon, piece, j + 1)
                            else:
                                send_early(1)

                        piece(0)
                        return
                    if k < w.cfg.get("early_frames", 0):
                        self.send_frame(OP_TEXT, b"early-%d" % k)
                        w.loop.call_soon(w.loop.call_soon, send_early, k + 1)  # two iterations apart: separate reads on the other side
                    elif w.cfg.get("early_eof") and self.transport is not None:
                        # ... says goodbye and hangs up, all before the client has installed its reader
                        self.send_frame(OP_CLOSE, (1000).to_bytes(2, "big"))
                        self.transport.close()

                w.loop.call_soon(send_early, 0)
                if w.cfg.get("unasked_extension"):
                    # ... and one with RSV1 set, although this client offered no extension
                    w.loop.call_soon(lambda: self.send(bytes([0x80 | 0x40 | OP_TEXT, 7]) + b"\x2a\x49\xcd\x2d\x28\x01\x00"))
            else:
                if b" 101 " not in head.split(b"\r\n")[0]:
                    w.handshake_failed = head
            data = rest
            if not data:
                return
        self.fbuf += data
        frames, self.fbuf = split_frames(self.fbuf)
        for fr in frames:
            self.frames.append(fr)
            op, payload, _ = fr
            if self.transport is None or self.transport.closing:
                continue
            if op == OP_PING and w.cfg["peer_pong"]:
                self.send_frame(OP_PONG, payload)
            elif op == OP_CLOSE and w.cfg["peer_echo"] and not self.sent_close_codes:
                code = struct.unpack("!H", payload[:2])[0] if len(payload) >= 2 else 1000
                self.send_close(code)

    def send_frame(self, op: int, payload: bytes) -> None:
        self.send(enc_frame(op, payload, masked=self.world.side == "server"))

    def send_close(self, code: int) -> None:
        self.sent_close_codes.append(code)
        self.send_frame(OP_CLOSE, struct.pack("!H", code))


TERMINAL = ("CLOSE", "CLOSING", "CLOSED", "ERROR")
HUGE = b"h" * 200_000  # more than the transport's high-water mark
BIG = bytes((i * 31 + (i >> 5)) % 251 for i in range(40000))  # > WEBSOCKET_MAX_SYNC_CHUNK_SIZE: compressed in the executor


class World:
    def __init__(self, cfg: dict) -> None:
        self.cfg = cfg
        self.side = cfg["side"]
        self.loop = new_loop()
        delay = cfg.get("exec_delay", 0)
        if delay:
            loop = self.loop

            def run_in_executor(executor, func, *args, _loop=loop):
                # an executor job finishes a few loop iterations later, like a thread would
                fut = _loop.create_future()

                def fire(k: int) -> None:
                    if k > 0:
                        _loop.call_soon(fire, k - 1)
                        return
                    if fut.done():
                        return
                    try:
                        fut.set_result(func(*args))
                    except BaseException as e:  # noqa: BLE001
                        fut.set_exception(e)

                _loop.call_soon(fire, delay)
                return fut

            loop.run_in_executor = run_in_executor  # type: ignore[method-assign]
        self.peer = Peer(self)
        self.ws = None
        self.session = None
        self.our_t: memnet.MemTransport | None = None
        self.peer_t: memnet.MemTransport | None = None
        self.handshake_failed = None
        self.finish: asyncio.Future | None = None
        self.recv_tasks: list[asyncio.Task] = []
        self.recv_log: list = []
        self.close_tasks: list[asyncio.Task] = []
        self.close_log: list[dict] = []
        self.other_tasks: list[asyncio.Task] = []
        self.cancelled: set = set()
        self.handler_task = None
        self.jumped = 0.0
        self.notes: list[str] = []

    # ---- setup
    def start(self) -> None:
        loop = self.loop
        cfg = self.cfg
        if self.side == "client":
            import aiohttp
            from aiohttp.client_ws import ClientWSTimeout

            MemConnector = memnet.make_connector_class()

            async def go():
                conn = MemConnector(lambda req, idx: (self.peer, None, None))
                tcs = []
                if cfg.get("early_frames") or cfg.get("unasked_extension"):
                    tc = aiohttp.TraceConfig()

                    async def slow(*_a):
                        for _ in range(20):
                            await asyncio.sleep(0)  # e.g. a metrics callback: the loop runs, the peer's frames arrive

                    tc.on_request_end.append(slow)
                    tcs.append(tc)
                self.session = aiohttp.ClientSession(connector=conn, trace_configs=tcs)
                if cfg.get("legacy_receive_timeout"):
                    # the deprecated spelling: receive_timeout= next to timeout=ClientWSTimeout(ws_close=...)
                    import warnings

                    with warnings.catch_warnings():
                        warnings.simplefilter("ignore", DeprecationWarning)
                        self.ws = await self.session.ws_connect(
                            "http://host/ws", autoclose=cfg["autoclose"], autoping=cfg["autoping"], heartbeat=cfg["heartbeat"],
                            timeout=ClientWSTimeout(ws_close=cfg["close_timeout"]), receive_timeout=cfg["recv_timeout"], compress=15 if cfg.get("compress") else 0)
                else:
                    self.ws = await self.session.ws_connect(
                        "http://host/ws", autoclose=cfg["autoclose"], autoping=cfg["autoping"], heartbeat=cfg["heartbeat"],
                        timeout=ClientWSTimeout(ws_receive=cfg["recv_timeout"], ws_close=cfg["close_timeout"]), compress=15 if cfg.get("compress") else 0)
                self.our_t, self.peer_t = conn.transports[0]
                from aiohttp import WSMsgType

                for k in range(cfg.get("early_frames", 0)):
                    try:
                        m = await asyncio.wait_for(self.ws.receive(), 5)
                    except asyncio.TimeoutError:
                        raise Violation("early-frame-lost", f"the peer sent {cfg['early_frames']} messages right behind the 101 response "
                                        f"({'the first one 400 KiB in four reads' if cfg.get('early_huge') else 'small ones'}); receive() #{k} got nothing within 5 s")
                    if k == 0 and cfg.get("early_huge"):
                        if m.type != WSMsgType.TEXT or m.data != "h" * (400 * 1024):
                            raise Violation("early-frame-lost", f"the peer sent a 400 KiB text message right behind the 101 response; receive() returned {str(m)[:120]}")
                        continue
                    if m.type != WSMsgType.TEXT or m.data != "early-%d" % k:
                        raise Violation("early-frame-lost", f"the peer sent {cfg['early_frames']} text frames right behind the 101 response; receive() #{k} returned {m!r}")
                if cfg.get("unasked_extension"):
                    m = await asyncio.wait_for(self.ws.receive(), 5)
                    if m.type in (WSMsgType.TEXT, WSMsgType.BINARY):
                        raise Violation("unnegotiated-extension-used", f"a frame with RSV1 was delivered as data ({m!r}) although this client offered no extension")
                    raise _Skip()  # the connection is over after the protocol error: nothing more to schedule

            try:
                loop.drive(go(), max_time=50)
            except _Skip:
                self.skip = True
            except Violation:
                raise
            except Exception as e:  # noqa: BLE001
                import aiohttp as _a

                if cfg.get("early_eof") and isinstance(e, _a.ClientError):
                    self.skip = True  # the peer hung up during the set-up: a client error is an answer
                elif cfg.get("early_eof"):
                    raise Violation(hyp.exc_key(e, "ws-connect-raised"), f"the peer upgraded, sent {cfg.get('early_frames', 0)} messages and a Close frame and hung up while "
                                    f"ws_connect() was still setting up: ws_connect() raised {type(e).__name__}: {e} (not a client error)")
                else:
                    raise
        else:
            from aiohttp import web

            self.finish = loop.create_future()
            ready = loop.create_future()

            async def handler(request):
                ws = web.WebSocketResponse(timeout=cfg["close_timeout"], receive_timeout=cfg["recv_timeout"], autoclose=cfg["autoclose"],
                                           autoping=cfg["autoping"], heartbeat=cfg["heartbeat"], compress=bool(cfg.get("compress")))
                for _ in range(cfg.get("prepare_delay", 0)):
                    await asyncio.sleep(0)  # a middleware / an auth lookup before the upgrade is accepted: the peer talks meanwhile
                await ws.prepare(request)
                self.ws = ws
                self.handler_task = asyncio.current_task()
                ready.set_result(None)
                try:
                    await self.finish
                except asyncio.CancelledError:
                    self.notes.append("handler-cancelled")
                    raise
                return ws

            async def go():
                self.server = web.Server(handler, **({"read_bufsize": cfg["read_bufsize"]} if cfg.get("read_bufsize") else {}))
                proto = self.server()
                self.peer_t, self.our_t = memnet.connect_protocols(loop, [], self.peer, proto, **({"c2s": memnet.Plan([30000])} if cfg.get("early_big") else {}))
                self.peer.send(b"GET /ws HTTP/1.1\r\nHost: h\r\nUpgrade: websocket\r\nConnection: Upgrade\r\n"
                               b"Sec-WebSocket-Key: dGhlIHNhbXBsZSBub25jZQ==\r\nSec-WebSocket-Version: 13\r\n"
                               + (b"Sec-WebSocket-Extensions: permessage-deflate\r\n" if cfg.get("compress") else b"") + b"\r\n")
                early = cfg.get("early_big", 0)
                for k in range(early):
                    # a client that does not wait for the 101: large frames right behind its handshake (more than the read
                    # buffer takes, more than the websocket queue takes)
                    self.peer.send(enc_frame(OP_BIN, bytes([65 + k]) * 50_000, masked=True))
                await ready
                if early:
                    from aiohttp import WSMsgType

                    for k in range(early):
                        m = await asyncio.wait_for(self.ws.receive(), 5)
                        if m.type != WSMsgType.BINARY or bytes(m.data) != bytes([65 + k]) * 50_000:
                            raise Violation("early-frame-lost", f"early frame #{k} of {early} came back as {m.type} ({len(m.data) if hasattr(m.data, '__len__') else m.data})")
                    self.peer.send_frame(OP_TEXT, b"after")
                    try:
                        m = await asyncio.wait_for(self.ws.receive(), 5)
                    except asyncio.TimeoutError:
                        raise Violation("deaf-after-early-frames", f"after {early} early frames were consumed, a further frame from the peer is never received "
                                        f"(transport reading paused: {self.our_t.reading_paused})")
                    if m.type != WSMsgType.TEXT or m.data != "after":
                        raise Violation("early-frame-lost", f"the frame after the early ones came back as {m!r}")

            loop.drive(go(), max_time=50)
        loop.run_until_idle()

    # ---- app actions
    def _recv_loop(self, single: bool):
        async def run():
            n = 0
            while True:
                try:
                    msg = await self.ws.receive()
                except asyncio.CancelledError:
                    self.recv_log.append(("cancelled", None))
                    raise
                except BaseException as e:  # noqa: BLE001
                    self.recv_log.append(("raise", type(e).__name__))
                    return
                self.recv_log.append((msg.type.name, msg.data if isinstance(msg.data, (int, str, bytes, type(None))) else type(msg.data).__name__))
                n += 1
                if single or msg.type.name in TERMINAL or n > 40:
                    return

        t = self.loop.create_task(run())
        self.recv_tasks.append(t)

    def _close(self, code: int):
        rec = {"start": self.loop.time(), "end": None, "res": None, "code": code}
        self.close_log.append(rec)

        async def run():
            rec["start"] = self.loop.time()  # when close() is actually entered (the clock may have moved since the task was created)
            rec["jump0"] = self.jumped
            try:
                rec["res"] = await self.ws.close(code=code)
            except asyncio.CancelledError:
                rec["res"] = "cancelled"
                rec["end"] = self.loop.time()
                raise
            except BaseException as e:  # noqa: BLE001
                rec["res"] = "raise:" + type(e).__name__
            rec["end"] = self.loop.time()
            rec["jump1"] = self.jumped

        t = self.loop.create_task(run())
        self.close_tasks.append(t)

    def _other(self, what: str):
        async def run():
            try:
                if what == "send":
                    await self.ws.send_str("hi")
                elif what == "send_big":
                    await self.ws.send_bytes(BIG)
                elif what == "send_huge":
                    await self.ws.send_bytes(HUGE)
                elif what == "send_near":
                    # just below the writer's drain threshold (its limit of output since the last drain): the NEXT frame - a Close
                    # frame, say - is the one that crosses it and has to wait for the peer
                    limit = getattr(self.ws._writer, "_limit", 65536)  # noqa: SLF001 (the threshold differs between client and server)
                    mask = 4 if self.side == "client" else 0
                    n = limit - 2 - mask - 4
                    if n >= 65536:
                        n = limit - 2 - mask - 10
                    await self.ws.send_bytes(b"n" * n)
                else:
                    await self.ws.ping()
            except asyncio.CancelledError:
                raise
            except BaseException as e:  # noqa: BLE001
                self.notes.append(f"{what}-raised:{type(e).__name__}")

        self.other_tasks.append(self.loop.create_task(run()))

    # ---- schedule
    def do(self, ev: list) -> None:
        kind = ev[0]
        if kind == "recv":
            if not any(not t.done() for t in self.recv_tasks):
                self._recv_loop(False)
        elif kind == "recv1":
            if not any(not t.done() for t in self.recv_tasks):
                self._recv_loop(True)
        elif kind == "close":
            self._close(ev[1])
        elif kind in ("send", "ping", "send_big", "send_near"):
            self._other(kind)
        elif kind == "peer":
            if self.peer.transport is None or self.peer.transport.closing:
                return
            what = ev[1]
            if what == "text":
                self.peer.send_frame(OP_TEXT, b"hello")
            elif what == "ping":
                self.peer.send_frame(OP_PING, b"p")
            elif what == "pong":
                self.peer.send_frame(OP_PONG, b"")
            elif what == "garbage":
                self.peer.send(b"\xff\xff\xff\xff")  # reserved bits + reserved opcode
            elif what == "close:empty":
                # a Close frame without a status code (RFC 6455 5.5.1 allows it; "1005 no status" for the receiver)
                self.peer.sent_close_codes.append(-1)
                self.peer.send_frame(OP_CLOSE, b"")
            elif what.startswith("close:"):
                self.peer.send_close(int(what[6:]))
        elif kind == "peer_pause":
            # the peer stops reading: our writes pile up and the transport asks us to pause writing
            if self.peer.transport is not None and not self.peer.transport.closing:
                self.peer.transport.pause_reading()
        elif kind == "peer_resume":
            if self.peer.transport is not None and not self.peer.transport.closing:
                self.peer.transport.resume_reading()
        elif kind == "send_huge":
            self._other("send_huge")
        elif kind == "eof":
            if self.peer.transport is not None:
                self.peer.transport.close()
        elif kind == "rst":
            if self.our_t is not None:
                self.our_t.reset_by_peer()
                self.peer_t.abort()
        elif kind == "cancel":
            tasks = self.recv_tasks if ev[1] == "recv" else self.close_tasks
            for t in tasks:
                if not t.done():
                    t.cancel()
                    self.cancelled.add(id(t))
        elif kind == "tick":
            self.loop.advance(ev[1])
        elif kind == "jump":
            # move the clock to the next timer WITHOUT letting the loop go idle first: what is already queued (e.g. a frame
            # in flight) and the timer callback then run in the same loop iteration
            nt = self.loop.next_timer()
            if nt is not None and nt > self.loop.time():
                self.jumped += nt - self.loop.time()  # time that passed while runnable work was queued: not charged to close()
                self.loop._vtime = nt
        else:
            raise AssertionError(ev)

    def run_steps(self, steps: int) -> None:
        if steps < 0:
            self.loop.run_until_idle()
        else:
            for _ in range(steps):
                self.loop.step()

    def teardown(self) -> None:
        loop = self.loop
        try:
            if self.finish is not None and not self.finish.done():
                self.finish.set_result(None)
            loop.run_until_idle()
            if self.session is not None:
                try:
                    loop.drive(self.session.close(), max_time=100)
                except BaseException:  # noqa: BLE001
                    pass
        finally:
            asyncio.set_event_loop(None)
            loop.shutdown()


def close_code_of(payload: bytes) -> int | None:
    return struct.unpack("!H", payload[:2])[0] if len(payload) >= 2 else None


def execute(case: dict) -> tuple[bool, list[str]]:
    cfg = case["cfg"]
    sched = case["sched"]
    w = World(cfg)
    try:
        w.start()
        if getattr(w, "skip", False):
            return True, ["unasked-extension"]
        if w.ws is None or w.handshake_failed:
            raise Violation("handshake-failed", f"websocket handshake did not complete: {w.handshake_failed!r}")
        loop = w.loop
        T = cfg["close_timeout"]
        for ev in sched:
            w.do(ev[:-1])
            w.run_steps(ev[-1])
        loop.run_until_idle()
        kinds = [e[0] + (":" + str(e[1]) if e[0] in ("peer", "cancel") else "") for e in sched]

        # ---- phase B: let every timer fire
        loop.run_to_quiescence(max_time=20 * T + 100)
        lost = w.our_t.closing or w.our_t.closed

        def check_close_calls(phase: str) -> None:
            for rec, t in zip(w.close_log, w.close_tasks):
                if not t.done():
                    raise Violation("close-never-returns", f"close(code={rec['code']}) started at t={rec['start']} has not returned at t={loop.time()} ({phase}); close timeout {T}; cfg={cfg} sched={sched}")
                if rec["res"] == "cancelled" or t.cancelled() or rec["end"] is None:
                    continue
                dur = rec["end"] - rec["start"] - (rec.get("jump1", 0.0) - rec.get("jump0", 0.0))
                if dur > T + 1.0 + 1e-6:
                    raise Violation("close-exceeds-timeout", f"close(code={rec['code']}) took {dur:.3f}s of virtual time, close timeout is {T}; cfg={cfg} sched={sched}")
                if isinstance(rec["res"], str) and rec["res"].startswith("raise:"):
                    w.notes.append("close-" + rec["res"])

        def check_receives(phase: str) -> None:
            for t in w.recv_tasks:
                if not t.done():
                    raise Violation("receive-blocks-forever", f"receive() still blocked {phase}: closed={w.ws.closed} transport closing={w.our_t.closing} lost={w.our_t.lost_called}; log={w.recv_log}; cfg={cfg} sched={sched}")

        check_close_calls("after all timers fired")
        if (cfg["heartbeat"] is not None and not cfg["peer_pong"] and not w.ws.closed and not lost and not (w.peer.transport is None or w.peer.transport.closing)
                and not w.peer.sent_close_codes):  # (a received Close frame stops the heartbeat: the application is expected to close)
            # the peer never answers pings: once every timer had its chance the heartbeat must have declared the session dead
            raise Violation("heartbeat-dead", f"heartbeat={cfg['heartbeat']} and a peer that never answers pings, yet after all timers fired the session is still "
                            f"open (closed={w.ws.closed}); recv={w.recv_log}; cfg={cfg} sched={sched}")
        if w.ws.closed:
            if not (w.our_t.closing or w.our_t.closed):
                raise Violation("closed-but-transport-open", f"ws.closed is True but the transport is still open; close_code={w.ws.close_code}; cfg={cfg} sched={sched}")
        if w.ws.closed or lost:
            check_receives("after the session closed / the connection was lost and all timers fired")

        # ---- phase C: the peer goes away
        if w.peer.transport is not None and not w.peer.transport.closing:
            w.peer.transport.close()
        loop.run_to_quiescence(max_time=20 * T + 100)
        check_close_calls("after the peer dropped the connection")
        check_receives("after the peer dropped the connection")
        # a fresh receive() must report the end, not block
        before = len(w.recv_log)
        w._recv_loop(True)
        loop.run_to_quiescence(max_time=20 * T + 100)
        if not w.recv_tasks[-1].done():
            raise Violation("receive-blocks-forever/fresh", f"a fresh receive() after the connection ended blocks; closed={w.ws.closed}; cfg={cfg} sched={sched}")
        last = w.recv_log[before] if len(w.recv_log) > before else None
        if last is not None and last[0] not in TERMINAL + ("raise", "cancelled"):
            # buffered data may still be handed out first; but then the next ones must end
            for _ in range(10):
                w._recv_loop(True)
                loop.run_to_quiescence(max_time=20 * T + 100)
                if not w.recv_tasks[-1].done():
                    raise Violation("receive-blocks-forever/fresh", f"receive() after the connection ended blocks; cfg={cfg} sched={sched}")
                if w.recv_log[-1][0] in TERMINAL + ("raise",):
                    break
            else:
                raise Violation("receive-never-terminal", f"receive() keeps returning {w.recv_log[-3:]} after the connection ended; cfg={cfg} sched={sched}")

        # ---- wire
        frames = w.peer.frames
        closes = [i for i, f in enumerate(frames) if f[0] == OP_CLOSE]
        if len(closes) > 1:
            raise Violation("two-close-frames", f"aiohttp sent {len(closes)} Close frames: {[frames[i] for i in closes]}; cfg={cfg} sched={sched}")
        if closes:
            after = frames[closes[0] + 1:]
            data_after = [f for f in after if f[0] in (0, OP_TEXT, OP_BIN)]
            if data_after:
                raise Violation("data-after-close", f"data frame (opcode {data_after[0][0]}, {len(data_after[0][1])} bytes) sent after the Close frame; cfg={cfg} sched={sched}")
            if after:
                w.notes.append("control-frame-after-close")

        # ---- close code
        peer_codes = w.peer.sent_close_codes
        # (an application cancelling its own pending receive() - a poll with a deadline - is no fault of the session: a clean
        # handshake afterwards is a clean handshake)
        faulty = any(e[0] in ("eof", "rst", "tick") or (e[0] == "cancel" and e[1] != "recv") or (e[0] == "peer" and e[1] == "garbage") for e in sched)
        consumer = any(e[0] in ("recv", "close") for e in sched)
        code = w.ws.close_code
        delivered = w.peer_t.total_delivered == w.peer_t.total_written  # the peer's Close actually reached aiohttp
        # after a cancelled receive() the session is as healthy as before: close() has to wait for the peer's Close like any
        # other close() (not reading it is the failure, not an excuse)
        recv_cancelled = any(e[0] == "cancel" and e[1] == "recv" for e in sched)
        if peer_codes and len(set(peer_codes)) == 1 and not faulty and consumer and closes and cfg["heartbeat"] is None and (delivered or (recv_cancelled and w.side == "client")):
            # a server close() that races a pending receive() closes the transport without reading the peer's Close (pinned by
            # test_concurrent_close): the Close may sit unread in the queue, so the handshake is not "clean" -> DON'T-CARE here,
            # MUST-1006 below when the peer sent none
            unread_by_design = w.side == "server" and any(r[0] == "CLOSING" for r in w.recv_log)
            acceptable = {0, 1005} if peer_codes[0] == -1 else {peer_codes[0]}  # (no status code in the frame: aiohttp says 0, the RFC 1005)
            if code not in acceptable and not unread_by_design:
                raise Violation("close-code/clean-handshake", f"both Close frames were exchanged (peer sent {peer_codes[0]}, we sent {close_code_of(frames[closes[0]][1])}) but close_code={code}; cfg={cfg} sched={sched}")
        garbage = any(e[0] == "peer" and e[1] == "garbage" for e in sched)
        cancels = any(e[0] == "cancel" for e in sched)
        if not peer_codes and not garbage and not cancels and (w.ws.closed or any(r[0] == "CLOSED" for r in w.recv_log)):
            if code != 1006:
                raise Violation("close-code/abnormal-end", f"the session ended without any Close frame from the peer but close_code={code} (expected 1006); recv={w.recv_log} closes={w.close_log}; cfg={cfg} sched={sched}")

        # ---- leftovers
        for t in w.other_tasks:
            if not t.done():
                w.notes.append("send-task-pending")
        if loop.exc_contexts:
            msgs = sorted({str(c.get("message"))[:60] + "/" + type(c.get("exception")).__name__ for c in loop.exc_contexts})
            w.notes.append("loop-exception:" + ";".join(msgs))

        has_close = any(e[0] == "close" for e in sched) or (cfg["autoclose"] and bool(peer_codes))
        overlap = has_close and (any(e[0] in ("recv", "recv1") for e in sched)) and (
            bool(peer_codes) or faulty or cfg["heartbeat"] is not None)
        labels = sorted(set(w.notes)) + [w.side]
        if code is not None:
            labels.append(f"code:{code}")
        return overlap, labels
    finally:
        w.teardown()


def check_case(rec: Rec, case: dict) -> None:
    nt, labels = execute(case)
    rec.case(case, nt, labels)


# ----------------------------------------------------------------------------------------------------------------------

def base_cfg(side: str, **kw) -> dict:
    cfg = {"side": side, "autoclose": True, "autoping": True, "heartbeat": None, "recv_timeout": None, "close_timeout": 2.0,
           "peer_pong": True, "peer_echo": False}
    cfg.update(kw)
    return cfg


def menu(cfg: dict) -> list[list]:
    T = cfg["close_timeout"]
    m = [["recv"], ["close", 1000], ["close", 4001], ["send"], ["peer", "text"], ["peer", "ping"], ["peer", "close:1000"], ["peer", "close:4000"], ["peer", "close:empty"],
         ["peer", "garbage"], ["eof"], ["rst"], ["cancel", "recv"], ["cancel", "close"], ["tick", 0.6 * T], ["tick", 3 * T]]
    if cfg.get("compress"):
        m = [["recv"], ["close", 1000], ["send"], ["send_big"], ["peer", "close:1000"], ["eof"], ["cancel", "close"], ["tick", 3 * T]]
    if cfg.get("heartbeat") is not None:
        m = [["recv"], ["close", 1000], ["peer", "text"], ["peer", "ping"], ["peer", "close:1000"], ["eof"], ["jump"], ["tick", cfg["heartbeat"] / 2], ["tick", 0.6 * T]]
    if cfg.get("write_stall"):
        m = [["recv"], ["close", 1000], ["send_huge"], ["send"], ["send_near"], ["peer_pause"], ["peer_resume"], ["peer", "close:1000"], ["eof"], ["cancel", "close"], ["tick", 0.6 * T]]
    return m


def unit_exhaustive(rec: Rec, cfg: dict, length: int, shard: int, nshards: int, gaps: list[int]) -> None:
    rec.exhaustive = True
    m = menu(cfg)
    i = 0
    for L in range(1, length + 1):
        for combo in itertools.product(range(len(m)), repeat=L):
            # canonical pruning: a schedule must contain an app or timer action to be about closing
            for gap in gaps:
                i += 1
                if i % nshards != shard:
                    continue
                if rec.expired():
                    rec.exhaustive = False
                    return
                sched = [m[k] + [gap] for k in combo]
                case = {"cfg": cfg, "sched": sched}
                try:
                    check_case(rec, case)
                except Violation as v:
                    if rec.is_known(v.key):
                        rec.known_hits[v.key] += 1
                        continue
                    if v.key in rec.muted:
                        continue
                    rec.fail(v.key, v.msg, case)
                    rec.muted.add(v.key)


@st.composite
def sampled_cases(draw):
    side = draw(st.sampled_from(["client", "server"]))
    T = draw(st.sampled_from([2.0, 10.0]))
    hb = draw(st.sampled_from([None, None, 4.0]))
    cfg = base_cfg(side, autoclose=draw(st.booleans()), autoping=draw(st.booleans()), heartbeat=hb,
                   recv_timeout=draw(st.sampled_from([None, None, 3.0])), close_timeout=T,
                   peer_pong=draw(st.booleans()), peer_echo=draw(st.booleans()))
    m = menu(cfg) + [["recv1"], ["ping"], ["peer", "pong"], ["tick", 0.1], ["tick", 1.1 * T], ["peer", "close:1001"]]
    if draw(st.integers(0, 2)) == 0:
        m += [["peer_pause"], ["peer_resume"], ["send_huge"], ["send_huge"]]
    if draw(st.integers(0, 2)) == 0:
        cfg["compress"] = True
        cfg["exec_delay"] = draw(st.integers(1, 4))
        m += [["send_big"], ["send_big"], ["send"]]
    if hb:
        m += [["tick", hb], ["tick", hb / 2 + 0.1], ["jump"], ["jump"]]
    n = draw(st.integers(1, 9))
    sched = [draw(st.sampled_from(m)) + [draw(st.sampled_from([-1, -1, 0, 1, 2, 3]))] for _ in range(n)]
    return {"cfg": cfg, "sched": sched}


def unit_sampled(rec: Rec, n: int, offset: int) -> None:
    hyp.run(rec, sampled_cases(), check_case, n, seed_offset=offset, max_root_causes=6)


CONFIGS = [
    base_cfg("client"),
    base_cfg("server"),
    base_cfg("client", autoclose=False),
    base_cfg("server", autoclose=False),
    base_cfg("client", peer_echo=True),
    base_cfg("server", peer_echo=True),
    base_cfg("client", heartbeat=4.0, peer_pong=False),
    base_cfg("server", heartbeat=4.0, peer_pong=False),
    base_cfg("client", recv_timeout=3.0),
    base_cfg("server", recv_timeout=3.0),
    base_cfg("client", compress=True, exec_delay=2),
    base_cfg("server", compress=True, exec_delay=2),
    base_cfg("client", write_stall=True),
    base_cfg("server", write_stall=True),
    base_cfg("client", recv_timeout=3.0, legacy_receive_timeout=True),
    base_cfg("client", early_frames=3),
    base_cfg("client", early_frames=3, early_huge=True),
    base_cfg("client", early_frames=2, early_eof=True),
    base_cfg("server", early_big=5, prepare_delay=40, read_bufsize=200_000),
    base_cfg("server", early_big=3, prepare_delay=10),
    base_cfg("client", unasked_extension=True),
]


def units(tier: str, seed: int) -> list[Unit]:
    us = []
    length = 3 if tier == "quick" else 4
    nsh = 2 if tier == "quick" else 8
    for ci, cfg in enumerate(CONFIGS):
        comp = bool(cfg.get("compress") or cfg.get("write_stall") or cfg.get("heartbeat"))
        nsh_c = nsh * 4 if (comp and tier == "quick") else nsh  # (the longer schedules in more, shorter units)
        for sh in range(nsh_c):
            us.append(Unit(f"exh-{ci}-{sh}", unit_exhaustive, {"cfg": cfg, "length": length + (1 if comp else 0), "shard": sh, "nshards": nsh_c,
                                                            "gaps": [-1, 1] if (tier == "thorough" or comp or ci < 4) else [-1]}))
    ns = 1200 if tier == "quick" else 20000
    for i in range(8):
        us.append(Unit(f"sampled{i}", unit_sampled, {"n": ns, "offset": i}))
    return us


def replay(rec: Rec, case: dict) -> None:
    check_case(rec, case)
