"""C19 Multipart codec round trip, truthful size, reader termination and limits."""
from __future__ import annotations

import asyncio
import base64
import binascii
import io
import json
import tracemalloc
import warnings
import zlib
from urllib.parse import parse_qsl, unquote

from hypothesis import strategies as st

from vlib import hyp
from vlib.detloop import new_loop
from vlib.runner import Rec, Unit, Violation

PROPERTY = "C19"
LEVEL = "exploration"
RULE = (
    "roundtrip: part lists (0..5 parts, nested writers to depth 2) for MultipartWriter mixed/related/form-data: payload "
    "kinds bytes/str(charset)/BytesIO/async-iterable/json/form/nested; content built from CR/LF runs, '--', boundary "
    "prefixes, boundary minus its last byte, LF-only and CR-only look-alikes, base64 alphabet runs, sizes around the "
    "8192-byte read chunk and the boundary window; Content-Transfer-Encoding none/binary/base64/quoted-printable x "
    "Content-Encoding none/identity/gzip/deflate; custom part headers; Content-Disposition names/filenames with "
    "quotes, backslashes, '%', ';', non-ASCII; with and without per-part Content-Length; custom and default boundary.  "
    "The body is written through a capturing stream writer, fed to a real StreamReader in generated segments (the next "
    "segment is fed only when the reader is blocked) and read back with a generated API per part: read, "
    "read(decode=True), read_chunk with generated legal sizes, readline, text/json/form, release, partial read, skip.  "
    "Oracles: a 20-line reference splitter (split on CRLF--boundary) gives the expected raw part bytes; stdlib "
    "base64/quopri/zlib decode them to the original content; supplied headers come back equal; names/filenames equal or "
    "percent-decode to the original; writer.size (when not None) and every part Content-Length equal the bytes written.  "
    "formdata: FormData(fields, quote_fields, charset, boundary) -> request.post() on a request object.  "
    "termination: valid bodies mutated (byte flips, truncation, duplication, boundary edits, splices) and raw bytes, "
    "walked with every API under an operation budget of 64 + 16*len(input) stream operations: the walk must finish or "
    "raise.  limits: over-long header lines, too many headers, oversize parts and decompression bombs fed in small "
    "segments: the error must surface while only limit + a few read chunks have been fed / allocated.  "
    "Non-trivial = content has CR/LF or a boundary prefix, an encoding, a nested writer, or a segment edge within "
    "len(boundary)+4 bytes of a delimiter; for mutations: the walk reached at least one part.  distinct = case JSON."
)
ASSUMPTIONS = [
    "content never contains CRLF--boundary and never starts with --boundary (RFC 2046: the delimiter must not occur in a part)",
    "names/filenames do not start with '/' or '\\\\' (the reader strips those on purpose) and have no CR/LF/NUL",
    "readline API is only used on parts whose lines are shorter than the stream's line limit",
    "per-chunk decode is checked for base64 only (the codec aligns quartets); gzip/deflate/QP are decoded from the whole part",
    "any exception counts as 'an error' for the termination clause; only non-termination is a violation there",
    "nested multiparts have >= 1 part (RFC 2046); quoted-printable only for content the stdlib codec round-trips",
    "FormData: text declared with an explicit content type carries the form charset in it; bytes declared text/* are valid UTF-8",
]

warnings.simplefilter("ignore")

CHUNK = 8192


# ----------------------------------------------------------------------------------------------------------------------
# capture / feed plumbing


class CapWriter:
    """AbstractStreamWriter stand-in that records every chunk."""

    def __init__(self) -> None:
        self.chunks: list[bytes] = []
        self.length = None
        self.chunked = False
        self.buffer_size = 0
        self.output_size = 0

    async def write(self, chunk) -> None:
        self.chunks.append(bytes(chunk))

    async def write_eof(self, chunk: bytes = b"") -> None:
        if chunk:
            self.chunks.append(bytes(chunk))

    async def drain(self) -> None:
        pass

    def enable_compression(self, *a, **kw) -> None:
        raise AssertionError("unexpected")

    def enable_chunking(self) -> None:
        pass

    async def write_headers(self, *a, **kw) -> None:
        pass

    def send_headers(self) -> None:
        pass

    @property
    def data(self) -> bytes:
        return b"".join(self.chunks)


class StubProto:
    def __init__(self) -> None:
        self._reading_paused = False
        self.connected = True

    def pause_reading(self) -> None:
        self._reading_paused = True

    def resume_reading(self, resume_parser: bool = True) -> None:
        self._reading_paused = False


class Budget(BaseException):
    pass


def make_stream(loop, limit: int = 2 ** 16, budget: int | None = None):
    from aiohttp.streams import StreamReader

    ops = {"n": 0}

    class Counting(StreamReader):
        pass

    def wrap(name: str) -> None:
        orig = getattr(StreamReader, name)
        if asyncio.iscoroutinefunction(orig):
            async def w(self, *a, **kw):
                ops["n"] += 1
                if budget is not None and ops["n"] > budget:
                    raise Budget(name)
                return await orig(self, *a, **kw)
        else:
            def w(self, *a, **kw):  # type: ignore[misc]
                ops["n"] += 1
                if budget is not None and ops["n"] > budget:
                    raise Budget(name)
                return orig(self, *a, **kw)
        setattr(Counting, name, w)

    for nm in ("read", "readline", "readuntil", "readany", "readchunk", "readexactly", "read_nowait", "unread_data"):
        wrap(nm)
    s = Counting(StubProto(), limit, loop=loop)  # type: ignore[arg-type]
    return s, ops


def segments(data: bytes, plan: list[int]) -> list[bytes]:
    """Cut data following the plan sizes (cycled); 0 in the plan = all the rest."""
    out = []
    pos = 0
    i = 0
    if not plan:
        plan = [0]
    while pos < len(data):
        n = plan[i % len(plan)]
        i += 1
        if n <= 0:
            n = len(data) - pos
        out.append(data[pos:pos + n])
        pos += n
    return out


def drive_feed(loop, stream, segs: list[bytes], coro, on_step=None):
    """Run coro as a task; feed the next segment whenever the loop goes idle.  Returns (done, result|exc, fed_at_end)."""
    task = loop.create_task(coro)
    fed = 0
    i = 0
    eof = False
    while True:
        loop.run_until_idle()
        if task.done():
            break
        if i < len(segs):
            stream.feed_data(segs[i])
            fed += len(segs[i])
            i += 1
            if on_step:
                on_step(fed)
        elif not eof:
            stream.feed_eof()
            eof = True
        else:
            task.cancel()
            loop.run_until_idle()
            return False, None, fed
    try:
        return True, task.result(), fed
    except Budget as e:
        return True, e, fed
    except BaseException as e:  # noqa: BLE001
        return True, e, fed


# ----------------------------------------------------------------------------------------------------------------------
# reference splitter (oracle for raw part bytes)


def ref_split(body: bytes, boundary: bytes) -> list[tuple[bytes, bytes]] | None:
    """Split a writer-produced body into (header_block, raw_content) pairs.  None if the structure is not as expected."""
    delim = b"\r\n--" + boundary
    pieces = (b"\r\n" + body).split(delim)
    if len(pieces) < 2 or pieces[0] != b"":
        return None
    if pieces[-1] != b"--\r\n":
        return None
    out = []
    for p in pieces[1:-1]:
        if not p.startswith(b"\r\n"):
            return None
        p = p[2:]
        if p.startswith(b"\r\n"):
            out.append((b"", p[2:]))
            continue
        k = p.find(b"\r\n\r\n")
        if k < 0:
            return None
        out.append((p[:k + 2], p[k + 4:]))
    return out


def ref_decode(raw: bytes, cte: str | None, ce: str | None) -> bytes:
    data = raw
    if cte == "base64":
        data = base64.b64decode(data, validate=True)
    elif cte == "quoted-printable":
        data = binascii.a2b_qp(data)
    if ce == "gzip":
        data = zlib.decompress(data, 16 + zlib.MAX_WBITS)
    elif ce == "deflate":
        try:
            data = zlib.decompress(data)
        except zlib.error:
            data = zlib.decompress(data, -zlib.MAX_WBITS)
    return data


# ----------------------------------------------------------------------------------------------------------------------
# generators

BOUNDARIES = ["b", "xx", ":", "bnd-1", "a'b(c)", "q q", "boundary", "0123456789abcdef0123456789abcdef", "-", "--", "=_" * 30, "B" * 70]


def content_alphabet(boundary: str) -> list[bytes]:
    b = boundary.encode()
    return [
        b"\r\n", b"\r", b"\n", b"--", b"-", b"\r\n--", b"\r\n-", b"\n--" + b, b"\r--" + b, b"--" + b,
        b"\r\n--" + b[:-1] if len(b) > 1 else b"\r\n-", b"\r\n--" + b[:len(b) // 2], b" --" + b + b"--",
        b"a", b"abc", b"=", b"=\r\n", b"=3D", b"\x00", b"\xff\xfe", b"QUJD", b"A", b" ", b"\t", b"x" * 17,
        b"line one\r\n", b"line two\n", b"\xc3\xa9", b"0" * 64,
    ]


def sanitize(content: bytes, boundaries: list[str]) -> bytes:
    """Make content legal for every enclosing boundary (construction, not rejection)."""
    for _ in range(8):
        changed = False
        for bs in boundaries:
            b = bs.encode()
            d = b"\r\n--" + b
            if d in content:
                content = content.replace(d, b"\r\n-+" + b)
                changed = True
            if content.startswith(b"--" + b):
                content = b"+" + content
                changed = True
        if not changed:
            break
    return content


@st.composite
def contents(draw, boundary: str):
    kind = draw(st.sampled_from(["small", "small", "small", "edge", "window", "b64ish", "empty"]))
    alpha = content_alphabet(boundary)
    if kind == "empty":
        return b""
    if kind == "small":
        return b"".join(draw(st.lists(st.sampled_from(alpha), min_size=1, max_size=8)))
    if kind == "b64ish":
        return draw(st.binary(min_size=0, max_size=40))
    blen = len(boundary) + 4
    if kind == "edge":
        # put an interesting token right around a multiple of the read chunk
        base = draw(st.sampled_from([CHUNK, 2 * CHUNK, CHUNK - blen, CHUNK + 2]))
        delta = draw(st.integers(-blen - 3, 3))
        tok = draw(st.sampled_from(alpha))
        fill = draw(st.sampled_from([b"x", b"\r\n", b"-", b"ab\r\n"]))
        n = max(0, base + delta)
        pre = (fill * (n // len(fill) + 1))[:n]
        tail = b"".join(draw(st.lists(st.sampled_from(alpha), max_size=4)))
        return pre + tok + tail
    # window: sizes around the boundary window
    n = draw(st.integers(max(0, blen - 4), 3 * blen + 4))
    tok = draw(st.sampled_from(alpha))
    return (tok * (n // len(tok) + 1))[:n]


HNAME = st.sampled_from(["X-Custom", "X-A", "Content-ID", "Content-Description", "Content-Location", "x-lower"])
HVALUE = st.text(alphabet=st.sampled_from(list("abcXYZ019 ;=\"'%<>@,/\\-_.:~") + ["é", "ß", "中", "\t"]), min_size=1, max_size=12).map(
    lambda s: s.strip() or "v"
)
NAME_CHARS = list("abcXYZ019 ;=\"'%+&?#*()[]{}<>@,.:~_-") + ["\\", "/", "é", "ß", "中", "ы", " ", "😀"]
DISP_TEXT = st.text(alphabet=st.sampled_from(NAME_CHARS), min_size=1, max_size=10).map(lambda s: s.lstrip("\\/") or "n")
TEXT = st.text(alphabet=st.sampled_from(list("abc xyz\r\n=-_.;:'\"%&+") + ["é", "ß", "ы", "中", " ", "\t"]), max_size=30)
CHARSETS = [None, "utf-8", "latin-1", "koi8-r", "utf-16"]
APIS = ["read", "read_decode", "chunks", "chunks", "readline", "release", "partial", "skip", "typed", "lines_then_skip", "lines_then_read"]


@st.composite
def leaf_parts(draw, boundary: str, enclosing: list[str], formdata: bool):
    kind = draw(st.sampled_from(["bytes", "bytes", "bytes", "str", "bytesio", "aiter", "json", "form"]))
    p: dict = {"kind": kind}
    if kind in ("bytes", "bytesio", "aiter"):
        p["content"] = sanitize(draw(contents(boundary)), enclosing)
        if kind == "aiter":
            p["pieces"] = draw(st.lists(st.integers(1, 9000), min_size=1, max_size=3))
    elif kind == "str":
        txt = draw(TEXT)
        cs = draw(st.sampled_from(CHARSETS))
        try:
            enc = txt.encode(cs or "utf-8")
        except UnicodeEncodeError:
            cs = "utf-8"
            enc = txt.encode("utf-8")
        if sanitize(enc, enclosing) != enc:
            txt, cs = "plain", None
        p["text"] = txt
        p["charset"] = cs
    elif kind == "json":
        p["obj"] = draw(st.recursive(st.none() | st.booleans() | st.integers(-5, 5) | TEXT,
                                     lambda c: st.lists(c, max_size=3) | st.dictionaries(TEXT, c, max_size=3), max_leaves=5))
        if sanitize(json.dumps(p["obj"]).encode(), enclosing) != json.dumps(p["obj"]).encode():
            p["obj"] = None
    else:
        p["pairs"] = draw(st.lists(st.tuples(TEXT, TEXT), max_size=3))
    if draw(st.booleans()) and kind in ("bytes", "bytesio", "aiter"):
        p["ctype"] = draw(st.sampled_from(["application/octet-stream", "text/plain", "image/png", "text/x-foo; charset=latin-1"]))
    p["headers"] = draw(st.lists(st.tuples(HNAME, HVALUE), max_size=2, unique_by=lambda t: t[0].lower()))
    if not formdata:
        p["cte"] = draw(st.sampled_from([None, None, "base64", "base64", "quoted-printable", "binary"]))
        p["ce"] = draw(st.sampled_from([None, None, None, "gzip", "deflate", "identity"]))
        p["drop_length"] = draw(st.booleans())
    else:
        p["cte"] = None
        p["ce"] = None
        p["drop_length"] = False
    if p["cte"] == "quoted-printable":
        # "line-oriented text": only content the stdlib codec itself round-trips, and whose encoded form is delimiter-free
        c = expected_content(p)
        e = binascii.b2a_qp(c)
        if kind == "aiter" or len(c) > 60000 or binascii.a2b_qp(e) != c or sanitize(e, enclosing) != e:
            p["cte"] = None
    if draw(st.booleans()) or formdata:
        params = {"name": draw(DISP_TEXT)}
        if draw(st.booleans()):
            params["filename"] = draw(DISP_TEXT)
        p["disp"] = {"type": "form-data" if formdata else draw(st.sampled_from(["attachment", "inline", "form-data"])),
                     "quote": draw(st.booleans()), "params": params}
    p["api"] = draw(st.sampled_from(APIS))
    p["sizes"] = draw(st.lists(st.integers(0, 40) | st.sampled_from([CHUNK, CHUNK - 1, CHUNK + 1, 100, 1000, 65536]), min_size=1, max_size=4))
    return p


@st.composite
def writers(draw, depth: int = 0, enclosing: tuple[str, ...] = ()):
    subtype = draw(st.sampled_from(["mixed", "mixed", "related", "form-data"])) if depth == 0 else draw(st.sampled_from(["mixed", "alternative"]))
    boundary = draw(st.sampled_from(BOUNDARIES + [None]))
    if boundary is None:
        boundary = "%032x" % draw(st.integers(0, 2 ** 128 - 1))
    if boundary in enclosing or any(boundary.startswith(e) or e.startswith(boundary) for e in enclosing):
        boundary = "n%d-" % depth + boundary[:60]
    enc = list(enclosing) + [boundary]
    formdata = subtype == "form-data"
    nparts = draw(st.integers(0, 5)) if depth == 0 else draw(st.integers(0, 3))  # (an empty MultipartWriter can be nested too: the writer produces it)
    parts = []
    for _ in range(nparts):
        if depth < 2 and not formdata and draw(st.integers(0, 5)) == 0:
            sub = draw(writers(depth + 1, tuple(enc)))
            sub["api"] = draw(st.sampled_from(["walk", "walk", "release", "skip"]))
            sub["headers"] = draw(st.lists(st.tuples(HNAME, HVALUE), max_size=1))
            parts.append(sub)
        else:
            parts.append(draw(leaf_parts(boundary, enc, formdata)))
    return {"kind": "nested", "subtype": subtype, "boundary": boundary, "parts": parts}


@st.composite
def plans(draw):
    return draw(st.one_of(
        st.just([0]),
        st.lists(st.integers(1, 6), min_size=1, max_size=6),
        st.lists(st.sampled_from([1, 2, 3, 5, 17, 64, 1000, CHUNK - 1, CHUNK, CHUNK + 1, 20000]), min_size=1, max_size=5),
    ))


@st.composite
def roundtrip_cases(draw):
    return {"writer": draw(writers()), "plan": draw(plans()), "limit": draw(st.sampled_from([2 ** 16, 2 ** 16, 2 ** 12, 2 ** 17]))}


# ----------------------------------------------------------------------------------------------------------------------
# building writers from specs


def build_writer(spec: dict):
    from aiohttp import hdrs, multipart, payload
    from multidict import CIMultiDict

    w = multipart.MultipartWriter(spec["subtype"], boundary=spec["boundary"])
    for p in spec["parts"]:
        headers = CIMultiDict()
        for k, v in p.get("headers", []):
            headers[k] = v
        if p["kind"] == "nested":
            sub = build_writer(p)
            part = w.append(sub, headers)
            continue
        if p.get("cte"):
            headers[hdrs.CONTENT_TRANSFER_ENCODING] = p["cte"]
        if p.get("ce"):
            headers[hdrs.CONTENT_ENCODING] = p["ce"]
        kind = p["kind"]
        if kind == "bytes":
            if "ctype" in p:
                headers[hdrs.CONTENT_TYPE] = p["ctype"]
            part = w.append(p["content"], headers)
        elif kind == "bytesio":
            if "ctype" in p:
                headers[hdrs.CONTENT_TYPE] = p["ctype"]
            part = w.append(io.BytesIO(p["content"]), headers)
        elif kind == "aiter":
            if "ctype" in p:
                headers[hdrs.CONTENT_TYPE] = p["ctype"]
            data = p["content"]
            pieces = p["pieces"]

            async def gen(data=data, pieces=pieces):
                pos = 0
                i = 0
                while pos < len(data):
                    n = pieces[i % len(pieces)]
                    i += 1
                    yield data[pos:pos + n]
                    pos += n

            part = w.append(gen(), headers)
        elif kind == "str":
            if p["charset"]:
                part = w.append_payload(payload.StringPayload(p["text"], encoding=p["charset"], headers=headers))
            else:
                part = w.append(p["text"], headers)
        elif kind == "json":
            part = w.append_json(p["obj"], headers)
        elif kind == "form":
            part = w.append_form([tuple(x) for x in p["pairs"]], headers)
        else:
            raise AssertionError(kind)
        if p.get("disp"):
            d = p["disp"]
            part.set_content_disposition(d["type"], quote_fields=d["quote"], **d["params"])
        if p.get("drop_length"):
            part.headers.popall(hdrs.CONTENT_LENGTH, None)
    return w


def expected_content(p: dict) -> bytes:
    kind = p["kind"]
    if kind in ("bytes", "bytesio", "aiter"):
        return p["content"]
    if kind == "str":
        return p["text"].encode(p["charset"] or "utf-8")
    if kind == "json":
        return json.dumps(p["obj"]).encode("utf-8")
    if kind == "form":
        from urllib.parse import urlencode

        return urlencode([tuple(x) for x in p["pairs"]], doseq=True).encode("utf-8")
    raise AssertionError(kind)


# ----------------------------------------------------------------------------------------------------------------------
# round trip


def _disp_ok(got: str | None, want: str) -> bool:
    if got is None:
        return False
    if got == want:
        return True
    try:
        return unquote(got, "utf-8", "strict") == want
    except Exception:
        return False


async def read_leaf(part, p: dict, raw_expect: bytes, blen: int, stats: dict) -> None:
    from aiohttp import hdrs

    cte = p.get("cte")
    ce = p.get("ce")
    if cte == "binary":
        cte_eff = None
    else:
        cte_eff = cte
    ce_eff = None if ce == "identity" else ce
    want = expected_content(p)
    api = p["api"]
    # headers
    for k, v in p.get("headers", []):
        got = part.headers.get(k)
        if got != v:
            raise Violation("header-changed", f"part header {k!r}: sent {v!r}, read back {got!r}")
    if "ctype" in p and part.headers.get(hdrs.CONTENT_TYPE) != p["ctype"]:
        raise Violation("header-changed", f"Content-Type sent {p['ctype']!r} read {part.headers.get(hdrs.CONTENT_TYPE)!r}")
    if p.get("disp"):
        params = p["disp"]["params"]
        if not _disp_ok(part.name, params["name"]):
            raise Violation("name-not-roundtripped", f"name {params['name']!r} (quote_fields={p['disp']['quote']}) read back as {part.name!r}; header {part.headers.get(hdrs.CONTENT_DISPOSITION)!r}")
        if "filename" in params and not _disp_ok(part.filename, params["filename"]):
            raise Violation("filename-not-roundtripped", f"filename {params['filename']!r} (quote_fields={p['disp']['quote']}) read back as {part.filename!r}; header {part.headers.get(hdrs.CONTENT_DISPOSITION)!r}")
    has_len = bool(part._length)  # noqa: SLF001 (only to choose legal chunk sizes)
    if hdrs.CONTENT_LENGTH in part.headers and int(part.headers[hdrs.CONTENT_LENGTH]) != len(raw_expect):
        raise Violation("content-length-untruthful", f"part Content-Length {part.headers[hdrs.CONTENT_LENGTH]} but {len(raw_expect)} content bytes were written")

    def check_raw(raw: bytes, how: str) -> None:
        if bytes(raw) != raw_expect:
            raise Violation(f"raw-mismatch/{how}", f"{how}: read {_short(raw)} expected {_short(raw_expect)}")

    def check_decoded(data: bytes, how: str) -> None:
        if bytes(data) != want:
            raise Violation(f"content-mismatch/{how}", f"{how} (cte={cte} ce={ce}): got {_short(data)} expected {_short(want)}")

    if api == "typed" and p["kind"] not in ("str", "json", "form"):
        api = "read_decode"
    if api in ("readline", "lines_then_skip", "lines_then_read"):
        lines = raw_expect.split(b"\n")
        longest = max((len(x) for x in lines), default=0)
        marker = b"--" + part._boundary[2:]  # noqa: SLF001
        if longest + 2 >= stats["line_limit"] or any(ln.startswith(marker) for ln in lines):
            api = "read"  # the line API is for line-oriented content: no over-long line, no line starting with --boundary
    if api == "read":
        raw = await part.read()
        check_raw(raw, "read")
        check_decoded(ref_decode(raw, cte_eff, ce_eff), "read+reference-decode")
        if not (part._is_form_data and ce_eff):  # noqa: SLF001
            check_decoded(part.decode(bytes(raw)), "read+part.decode")
    elif api == "read_decode":
        data = await part.read(decode=True)
        check_decoded(data, "read(decode=True)")
    elif api == "chunks":
        sizes = p["sizes"]
        out = []
        i = 0
        # the library's own consumers (request.post() file fields, BodyPartReaderPayload.write) decode every
        # chunk on its own, so chunk edges must fall where the transfer coding can be cut
        per_chunk_ok = cte_eff in ("base64", "quoted-printable") and not ce_eff
        dec = bytearray()
        while not part.at_eof():
            n = sizes[i % len(sizes)]
            i += 1
            n = max(n, 1) if has_len else max(n, blen)
            c = await part.read_chunk(n)
            stats["chunks"] += 1
            out.append(bytes(c))
            if per_chunk_ok:
                try:
                    dec.extend(part.decode(bytes(c)))
                except binascii.Error as e:
                    raise Violation("base64-chunk-not-decodable", f"read_chunk({n}) returned {_short(c)} which does not decode on its own: {e}")
            if i > 64 + 16 * (len(raw_expect) + 10):
                raise Violation("no-progress", "read_chunk loop does not reach the end of the part")
        check_raw(b"".join(out), "read_chunk")
        if per_chunk_ok:
            check_decoded(bytes(dec), "read_chunk+decode per chunk")
    elif api == "readline":
        out = []
        i = 0
        while not part.at_eof():
            out.append(await part.readline())
            i += 1
            if i > 64 + 4 * (len(raw_expect) + 10):
                raise Violation("no-progress", "readline loop does not reach the end of the part")
        check_raw(b"".join(out), "readline")
    elif api in ("lines_then_skip", "lines_then_read"):
        # the first line(s) through the line API, then the rest is skipped (next() releases it) or read in one go
        got = bytearray()
        for _ in range(1 + p["sizes"][0] % 3):
            if part.at_eof():
                break
            got += await part.readline()
        if not raw_expect.startswith(bytes(got)):
            raise Violation("raw-mismatch/readline-prefix", f"lines read {_short(got)} are not a prefix of {_short(raw_expect)}")
        if api == "lines_then_read":
            got += await part.read()
            check_raw(bytes(got), "readline+read")
    elif api == "release":
        await part.release()
    elif api == "partial":
        n = CHUNK if not has_len else max(1, p["sizes"][0])
        c = await part.read_chunk(max(n, blen))
        if not raw_expect.startswith(bytes(c)) and cte_eff != "base64":
            raise Violation("raw-mismatch/partial", f"first chunk {_short(c)} is not a prefix of {_short(raw_expect)}")
    elif api == "skip":
        pass
    elif api == "typed":
        if ce_eff and part._is_form_data:  # noqa: SLF001
            return
        if p["kind"] == "str":
            t = await part.text()
            if t != p["text"]:
                raise Violation("text-mismatch", f"text() returned {t!r} expected {p['text']!r} (charset {p['charset']})")
        elif p["kind"] == "json":
            j = await part.json()
            if j != p["obj"] and not (p["obj"] is None and j is None):
                raise Violation("json-mismatch", f"json() returned {j!r} expected {p['obj']!r}")
        else:
            f = await part.form()
            exp = parse_qsl(expected_content(p).decode().rstrip(), keep_blank_values=True)
            if f != exp:
                raise Violation("form-mismatch", f"form() returned {f!r} expected {exp!r}")


def _short(b: bytes) -> str:
    b = bytes(b)
    return repr(b) if len(b) <= 120 else f"{b[:50]!r}...{b[-50:]!r} (len {len(b)})"


async def walk_writer(reader, spec: dict, body: bytes, stats: dict) -> None:
    from aiohttp.multipart import BodyPartReader, MultipartReader

    ref = ref_split(body, spec["boundary"].encode())
    if ref is None or len(ref) != len(spec["parts"]):
        raise Violation("writer-structure", f"reference splitter finds {None if ref is None else len(ref)} parts in the written body, {len(spec['parts'])} were appended: {_short(body)}")
    blen = len(spec["boundary"]) + 4
    stats["boundary"] = spec["boundary"].encode()
    for idx, p in enumerate(spec["parts"]):
        part = await reader.next()
        if part is None:
            raise Violation("part-lost", f"reader ended after {idx} of {len(spec['parts'])} parts")
        hdr_block, raw = ref[idx]
        if p["kind"] == "nested":
            if not isinstance(part, MultipartReader):
                raise Violation("part-kind", f"nested writer read back as {type(part).__name__}")
            for k, v in p.get("headers", []):
                got = part.headers.get(k)
                if got != v:
                    raise Violation("header-changed", f"nested part header {k!r}: sent {v!r}, read back {got!r}")
            stats["nested"] += 1
            if p["api"] == "walk":
                await walk_writer(part, p, raw, stats)
            elif p["api"] == "release":
                await part.release()
        else:
            if not isinstance(part, BodyPartReader):
                raise Violation("part-kind", f"leaf part read back as {type(part).__name__}")
            await read_leaf(part, p, raw, blen, stats)
    extra = await reader.next()
    if extra is not None:
        raise Violation("part-invented", f"reader yielded a part after the {len(spec['parts'])} written ones")
    if not reader.at_eof():
        raise Violation("reader-not-at-eof", "next() returned None but at_eof() is False")


def writer_uses_encoding(spec: dict) -> bool:
    return any((p["kind"] == "nested" and writer_uses_encoding(p)) or (p["kind"] != "nested" and (p.get("cte") not in (None, "binary") or p.get("ce") not in (None, "identity")))
               for p in spec["parts"])


def all_leaves(spec: dict):
    for p in spec["parts"]:
        if p["kind"] == "nested":
            yield from all_leaves(p)
        else:
            yield p


def delimiter_offsets(body: bytes, spec: dict) -> list[int]:
    out = []
    d = b"--" + spec["boundary"].encode()
    pos = body.find(d)
    while pos >= 0:
        out.append(pos)
        pos = body.find(d, pos + 1)
    for p in spec["parts"]:
        if p["kind"] == "nested":
            out.extend(delimiter_offsets(body, p))
    return out


def check_roundtrip(rec: Rec, case: dict) -> None:
    from aiohttp import hdrs
    from aiohttp.multipart import MultipartReader

    spec = case["writer"]
    loop = new_loop()
    try:
        asyncio.set_event_loop(loop)
        try:
            w = build_writer(spec)
        except (ValueError, RuntimeError, AssertionError, TypeError) as e:
            rec.label("writer-refused:" + type(e).__name__)
            return
        cap = CapWriter()
        size_before = w.size
        try:
            loop.drive(w.write(cap))
        except Exception as e:  # noqa: BLE001
            raise Violation(hyp.exc_key(e, "writer-raised"), f"MultipartWriter.write raised {type(e).__name__}: {e}")
        body = cap.data
        if size_before is not None and size_before != len(body):
            raise Violation("size-untruthful", f"writer.size={size_before} but {len(body)} bytes were written")
        if size_before is None and not writer_uses_encoding(spec) and not any(p["kind"] == "aiter" for p in all_leaves(spec)):
            rec.label("size-none-without-reason")
        # the other way of producing the body: as_bytes() (what client middlewares hash or sign) must be the
        # bytes write() sends; async-iterable parts have no as_bytes by contract and are left out
        if not any(p["kind"] == "aiter" for p in all_leaves(spec)):
            w2 = build_writer(spec)
            try:
                ab = loop.drive(w2.as_bytes())
            except Exception as e:  # noqa: BLE001
                raise Violation(hyp.exc_key(e, "as-bytes-raised"), f"MultipartWriter.as_bytes raised {type(e).__name__}: {e}")
            if ab != body:
                raise Violation("as-bytes-differs-from-write",
                                f"as_bytes() gives {len(ab)} bytes {_short(ab)} but write() sent {len(body)} bytes {_short(body)}")
            rec.label("as-bytes-compared")
        stream, ops = make_stream(loop, case["limit"], budget=None)
        stats = {"chunks": 0, "nested": 0, "line_limit": case["limit"] * 2}
        reader = MultipartReader({hdrs.CONTENT_TYPE: w.headers[hdrs.CONTENT_TYPE]}, stream)
        segs = segments(body, case["plan"])
        done, res, _ = drive_feed(loop, stream, segs, walk_writer(reader, spec, body, stats))
        if not done:
            raise Violation("reader-hangs", f"reader blocked forever on a complete body ({len(body)} bytes, plan {case['plan']})")
        if isinstance(res, Violation):
            raise res
        if isinstance(res, BaseException):
            if isinstance(res, (KeyboardInterrupt, SystemExit)):
                raise res
            raise Violation(hyp.exc_key(res, "reader-raised"), f"reading a writer-produced body raised {type(res).__name__}: {res}")
        # non-triviality
        leaves = list(all_leaves(spec))
        interesting = any(b"\r" in expected_content(p) or b"\n" in expected_content(p) or b"--" in expected_content(p) for p in leaves)
        enc = writer_uses_encoding(spec)
        offs = delimiter_offsets(body, spec)
        edges = []
        pos = 0
        for s in segs:
            pos += len(s)
            edges.append(pos)
        near = any(abs(e - o) <= len(spec["boundary"]) + 4 for e in edges[:-1] for o in offs) if len(edges) < 4000 else True
        labels = []
        if enc:
            labels.append("encoded")
        if stats["nested"]:
            labels.append("nested")
        if near:
            labels.append("cut-near-delimiter")
        if interesting:
            labels.append("crlf-or-dashes")
        if size_before is not None:
            labels.append("size-known")
        for p in leaves:
            labels.append("api:" + p["api"])
        rec.case(case, bool(leaves) and (interesting or enc or near or stats["nested"] > 0), sorted(set(labels)))
    finally:
        asyncio.set_event_loop(None)
        loop.shutdown()


def unit_roundtrip(rec: Rec, n: int, offset: int) -> None:
    def body(rec, case):
        check_roundtrip(rec, case)

    hyp.run(rec, roundtrip_cases(), body, n, seed_offset=offset)


# ----------------------------------------------------------------------------------------------------------------------
# FormData -> request.post()


@st.composite
def form_cases(draw):
    nf = draw(st.integers(0, 5))
    fields = []
    boundary = draw(st.sampled_from(BOUNDARIES[:8] + [None, None]))
    for _ in range(nf):
        kind = draw(st.sampled_from(["str", "str", "bytes", "bytesio"]))
        f: dict = {"kind": kind, "name": draw(DISP_TEXT)}
        if kind == "str":
            f["text"] = draw(TEXT)
        else:
            f["content"] = sanitize(draw(contents(boundary or "zz")), [boundary] if boundary else [])
        if draw(st.integers(0, 2)) == 0:
            f["filename"] = draw(DISP_TEXT)
        if draw(st.integers(0, 2)) == 0:
            f["ctype"] = draw(st.sampled_from(["text/plain", "application/octet-stream", "image/png", "text/html"]))
            if kind != "str" and f["ctype"].startswith("text/") and "filename" not in f:
                try:
                    f["content"].decode("utf-8")  # declaring undecodable bytes as text is the caller's error
                except UnicodeDecodeError:
                    f["ctype"] = "application/octet-stream"
        fields.append(f)
    return {
        "fields": fields, "quote": draw(st.booleans()), "charset": draw(st.sampled_from([None, None, "utf-8", "latin-1", "koi8-r"])),
        "boundary": boundary, "plan": draw(plans()), "force_multipart": draw(st.booleans()),
        # RFC 7578 4.6: a first form-data field named _charset_ gives the default charset of the text parts after it
        "charset_field": draw(st.sampled_from([None, None, None, "utf-8", "latin-1", " latin-1 ", "x" * 40])),
    }


def check_form(rec: Rec, case: dict) -> None:
    from aiohttp import FormData, hdrs
    from aiohttp.test_utils import make_mocked_request
    from aiohttp.web_request import FileField

    loop = new_loop()
    try:
        asyncio.set_event_loop(loop)
        charset = case["charset"]
        fields = case["fields"]
        for f in fields:
            if f["kind"] == "str" and (charset or case.get("charset_field")) and "ctype" in f and "charset=" not in f["ctype"]:
                # an explicit content type without a charset parameter plus a form charset (or a _charset_ default that
                # is not what FormData encodes with) leaves the receiver guessing
                f["ctype"] = f["ctype"] + "; charset=" + (charset or "utf-8")
            if f["kind"] == "str" and charset:
                try:
                    f["text"].encode(charset)
                except UnicodeEncodeError:
                    rec.label("skipped-unencodable")
                    return
        try:
            fd = FormData(quote_fields=case["quote"], charset=charset, boundary=case["boundary"], default_to_multipart=case["force_multipart"])
            cf = case.get("charset_field")
            if cf is not None:
                fd.add_field("_charset_", cf)
            for f in fields:
                val = f["text"] if f["kind"] == "str" else (f["content"] if f["kind"] == "bytes" else io.BytesIO(f["content"]))
                fd.add_field(f["name"], val, content_type=f.get("ctype"), filename=f.get("filename"))
            is_multipart = fd.is_multipart
            if not is_multipart and charset:
                for f in fields:
                    f["name"].encode(charset)
            pl = fd()
        except (ValueError, TypeError, UnicodeEncodeError) as e:
            rec.label("formdata-refused:" + type(e).__name__)
            return
        cap = CapWriter()
        size = pl.size
        try:
            loop.drive(pl.write(cap))
        except Exception as e:  # noqa: BLE001
            raise Violation(hyp.exc_key(e, "writer-raised/formdata"), f"FormData payload write raised {type(e).__name__}: {e}")
        body = cap.data
        if size is not None and size != len(body):
            raise Violation("size-untruthful/formdata", f"payload.size={size} but {len(body)} bytes were written")
        stream, _ = make_stream(loop)
        req = make_mocked_request("POST", "/", headers={hdrs.CONTENT_TYPE: pl.headers[hdrs.CONTENT_TYPE]}, payload=stream, loop=loop, client_max_size=10 ** 8)
        done, res, _ = drive_feed(loop, stream, segments(body, case["plan"]), req.post())
        if not done:
            raise Violation("post-hangs", f"request.post() blocked forever on a complete FormData body, plan {case['plan']}")
        default_cs = "utf-8"
        if cf is not None and is_multipart:
            if len(cf.encode(charset or "utf-8")) > 31:
                # not a charset name: refused, not guessed at
                if not isinstance(res, BaseException):
                    raise Violation("charset-field-not-refused", f"a {len(cf)}-byte _charset_ value was accepted: {res!r}")
                rec.case(case, True, ["charset-field-too-long"])
                return
            default_cs = cf.strip()
        elif cf is not None:
            fields = [{"kind": "str", "name": "_charset_", "text": cf}] + fields  # urlencoded: an ordinary field
        if isinstance(res, BaseException):
            raise Violation(hyp.exc_key(res, "post-raised"), f"request.post() on a FormData body raised {type(res).__name__}: {res}; body {_short(body)}")
        items = list(res.items())
        if len(items) != len(fields):
            raise Violation("field-count", f"{len(fields)} fields sent, post() returned {len(items)}: {[k for k, _ in items]!r}; body {_short(body)}")
        for f, (k, v) in zip(fields, items):
            if not _disp_ok(k, f["name"]):
                raise Violation("name-not-roundtripped/formdata", f"field name {f['name']!r} (quote_fields={case['quote']}, multipart={is_multipart}) came back as {k!r}")
            data = f["text"].encode(charset or "utf-8") if f["kind"] == "str" else f["content"]
            is_file = is_multipart and ("filename" in f or f["kind"] == "bytesio")
            if is_file:
                if not isinstance(v, FileField):
                    raise Violation("file-field-kind", f"field with filename came back as {type(v).__name__}")
                if "filename" in f and not _disp_ok(v.filename, f["filename"]):
                    raise Violation("filename-not-roundtripped/formdata", f"filename {f['filename']!r} (quote_fields={case['quote']}) came back as {v.filename!r}")
                got = v.file.read()
                if got != data:
                    raise Violation("file-content", f"file field content {_short(got)} expected {_short(data)}")
                if "ctype" in f and v.content_type != f["ctype"] and not v.content_type.startswith(f["ctype"]):
                    raise Violation("file-content-type", f"content type {f['ctype']!r} came back as {v.content_type!r}")
            elif not is_multipart:
                if v != f["text"]:
                    raise Violation("urlencoded-value", f"value {f['text']!r} came back as {v!r}")
            else:
                ct = f.get("ctype")
                if f["kind"] == "str":
                    textual = ct is None or ct.startswith("text/")
                else:
                    textual = ct is not None and ct.startswith("text/")
                if textual:
                    if isinstance(v, str):
                        exp = data.decode(charset or "utf-8") if f["kind"] == "str" else None
                        if exp is not None and v != exp:
                            raise Violation("text-field", f"text field {exp!r} came back as {v!r}")
                        if exp is None:
                            try:
                                want = data.decode(default_cs)
                            except UnicodeDecodeError:
                                want = None
                            if want is not None and v != want:
                                raise Violation("text-field", f"bytes field {_short(data)} declared text (default charset {default_cs}) came back as {v!r}")
                    else:
                        raise Violation("text-field-kind", f"text field came back as {type(v).__name__}")
                else:
                    if isinstance(v, (bytes, bytearray)):
                        if bytes(v) != data:
                            raise Violation("bytes-field", f"bytes field {_short(data)} came back as {_short(v)}")
                    elif isinstance(v, str):
                        if v.encode(charset or "utf-8") != data and f["kind"] != "bytes":
                            raise Violation("bytes-field", f"field {_short(data)} came back as str {v!r}")
                    else:
                        raise Violation("bytes-field-kind", f"field came back as {type(v).__name__}")
        labels = ["multipart" if is_multipart else "urlencoded", "quote" if case["quote"] else "noquote"]
        if cf is not None and is_multipart:
            labels.append("charset-field")
        nt = bool(fields) and any(not f["name"].isascii() or any(c in f["name"] for c in "\"\\%; ") or "filename" in f for f in fields)
        rec.case(case, nt, labels)
    finally:
        asyncio.set_event_loop(None)
        loop.shutdown()


def unit_form(rec: Rec, n: int, offset: int) -> None:
    def body(rec, case):
        check_form(rec, case)

    hyp.run(rec, form_cases(), body, n, seed_offset=offset)


# ----------------------------------------------------------------------------------------------------------------------
# termination on arbitrary input

WALK_APIS = ["read", "read_decode", "chunks", "readline", "release", "skip", "mixed"]


async def walk_any(reader, api: str, sizes: list[int], stats: dict, depth: int = 0) -> None:
    from aiohttp.multipart import MultipartReader

    guard = 0
    while True:
        guard += 1
        if guard > stats["budget"]:
            raise Budget("driver:next")
        part = await reader.next()
        if part is None:
            return
        stats["parts"] += 1
        if isinstance(part, MultipartReader):
            if depth < 6 and api != "skip":
                await walk_any(part, api, sizes, stats, depth + 1)
            continue
        a = api if api != "mixed" else WALK_APIS[(stats["parts"] + depth) % 6]
        if a == "read":
            await part.read()
        elif a == "read_decode":
            await part.read(decode=True)
        elif a == "chunks":
            i = 0
            blen = part._boundary_len  # noqa: SLF001
            while not part.at_eof():
                n = max(sizes[i % len(sizes)], blen)
                i += 1
                await part.read_chunk(n)
                if i > stats["budget"]:
                    raise Budget("driver:read_chunk")
        elif a == "readline":
            i = 0
            while not part.at_eof():
                line = await part.readline()
                if not line and part._content.at_eof():  # noqa: SLF001  b"" at end of input is the EOF report
                    break
                i += 1
                if i > stats["budget"]:
                    raise Budget("driver:readline")
        elif a == "release":
            await part.release()


def run_walk(data: bytes, ctype: str, api: str, sizes: list[int], plan: list[int], **kw) -> tuple[str, dict]:
    from aiohttp import hdrs
    from aiohttp.multipart import MultipartReader

    loop = new_loop()
    try:
        asyncio.set_event_loop(loop)
        budget = 64 + 16 * len(data)
        stream, ops = make_stream(loop, 2 ** 16, budget=budget)
        stats = {"parts": 0, "budget": budget}
        try:
            reader = MultipartReader({hdrs.CONTENT_TYPE: ctype}, stream, **kw)
        except (ValueError, AssertionError) as e:
            return "ctor:" + type(e).__name__, stats
        done, res, _ = drive_feed(loop, stream, segments(data, plan), walk_any(reader, api, sizes, stats))
        stats["ops"] = ops["n"]
        if not done:
            return "hang", stats
        if isinstance(res, Budget):
            return "budget:" + str(res), stats
        if isinstance(res, BaseException):
            if isinstance(res, (KeyboardInterrupt, SystemExit, MemoryError)):
                raise res
            return "error:" + type(res).__name__, stats
        return "ok", stats
    finally:
        asyncio.set_event_loop(None)
        loop.shutdown()


MUT_KINDS = ["flip", "truncate", "dup", "del", "insert", "boundary_edit", "splice", "crlf", "raw"]


@st.composite
def mutation_cases(draw):
    spec = draw(writers())
    muts = draw(st.lists(st.tuples(st.sampled_from(MUT_KINDS), st.integers(0, 10 ** 6), st.integers(0, 10 ** 6), st.integers(0, 255)), min_size=1, max_size=4))
    return {"writer": spec, "muts": [list(m) for m in muts], "api": draw(st.sampled_from(WALK_APIS)),
            "sizes": draw(st.lists(st.integers(0, 64) | st.just(CHUNK), min_size=1, max_size=3)), "plan": draw(plans())}


def apply_mutations(body: bytes, boundary: bytes, muts: list) -> bytes:
    b = bytearray(body)
    tokens = [b"\r\n--" + boundary, b"--" + boundary + b"--", b"--" + boundary + b"\r\n", b"\r\n", b"\r\n\r\n", b"--", b"Content-Length: 5\r\n",
              b"Content-Length: 99999\r\n", b"Content-Type: multipart/mixed; boundary=" + boundary + b"\r\n", b"Content-Type: multipart/mixed; boundary=zz\r\n\r\n",
              b"Content-Transfer-Encoding: base64\r\n", b"Content-Encoding: gzip\r\n", b"Content-Encoding: deflate\r\n", b"Content-Disposition: form-data; name=\"_charset_\"\r\n",
              b"\n", b"\r", b":", b" ", boundary]
    for kind, a, c, v in muts:
        n = len(b)
        if kind == "raw":
            b = bytearray((bytes([v]) * (a % 50)) + tokens[c % len(tokens)] + bytes(b[: a % (n + 1)]))
            continue
        if n == 0:
            b.extend(tokens[a % len(tokens)])
            continue
        i = a % n
        j = min(n, i + 1 + c % 40)
        if kind == "flip":
            b[i] = v
        elif kind == "truncate":
            del b[i:]
        elif kind == "dup":
            b[i:i] = b[i:j]
        elif kind == "del":
            del b[i:j]
        elif kind == "insert":
            b[i:i] = tokens[c % len(tokens)]
        elif kind == "boundary_edit":
            k = bytes(b).find(boundary, i)
            if k < 0:
                k = bytes(b).find(boundary)
            if k >= 0:
                if v % 3 == 0:
                    del b[k + len(boundary) - 1]
                elif v % 3 == 1:
                    b[k:k] = b"-"
                else:
                    b[k + len(boundary):k + len(boundary)] = b"--"
        elif kind == "splice":
            b = bytearray(bytes(b[:i]) + bytes(b[c % n:]))
        elif kind == "crlf":
            k = bytes(b).find(b"\r\n", i)
            if k >= 0:
                del b[k + (v % 2)]
    return bytes(b)


def check_mutation(rec: Rec, case: dict) -> None:
    loop = new_loop()
    try:
        asyncio.set_event_loop(loop)
        spec = case["writer"]
        try:
            w = build_writer(spec)
        except (ValueError, RuntimeError, AssertionError, TypeError):
            return
        cap = CapWriter()
        try:
            loop.drive(w.write(cap))
        except Exception:  # noqa: BLE001
            return
        ctype = w.headers["Content-Type"]
    finally:
        asyncio.set_event_loop(None)
        loop.shutdown()
    data = apply_mutations(cap.data, spec["boundary"].encode(), case["muts"])
    if len(data) > 60000:
        data = data[:60000]
    verdict, stats = run_walk(data, ctype, case["api"], case["sizes"], case["plan"])
    if verdict == "hang":
        raise Violation("walk-hangs-after-eof", f"reader still blocked after EOF; api={case['api']} data={_short(data)}")
    if verdict.startswith("budget"):
        raise Violation("walk-does-not-terminate", f"more than {stats['budget']} stream operations on {len(data)} bytes ({verdict}); api={case['api']} data={_short(data)}")
    rec.case(case, stats["parts"] > 0, [verdict, "api:" + case["api"]])


def unit_mutation(rec: Rec, n: int, offset: int) -> None:
    def body(rec, case):
        check_mutation(rec, case)

    hyp.run(rec, mutation_cases(), body, n, seed_offset=offset)


# ----------------------------------------------------------------------------------------------------------------------
# limits enforced while reading


def limit_cases(tier: str) -> list[dict]:
    out = []
    for where in ("first", "second", "nested"):
        for F in (64, 1000, 8190):
            for k in (4, 30):
                for shape in ("value", "name", "noline"):
                    out.append({"limit": "field", "where": where, "F": F, "k": k, "shape": shape, "seg": 64 if F < 2000 else 512})
        for H in (4, 128):
            for k in (5, 40):
                out.append({"limit": "headers", "where": where, "H": H, "k": k, "seg": 128})
    for M in (100, 5000, 100000):
        for api in ("read", "read_decode", "post-text", "post-file", "read-nested", "read_decode-nested"):
            for enc in (None, "base64"):
                if enc and api.startswith("post"):
                    continue
                out.append({"limit": "size", "M": M, "api": api, "enc": enc, "seg": 1024})
    for size in (1, 3000):
        for api in ("multipart-read", "multipart-read_decode", "post-text", "post-file"):
            out.append({"limit": "unlimited", "size": size, "api": api})
    for M in (100000, 1000000):
        for ce in ("gzip", "deflate"):
            out.append({"limit": "bomb", "M": M, "ce": ce, "factor": 40 if tier == "quick" else 200})
    # not a limit at all: a compressed part larger than one decompression step (256 KiB) read with no size limit comes
    # back whole through every decoding API
    for ce in ("gzip", "deflate"):
        for size in (262144, 262145, 600000):
            for api in ("decode", "read_decode", "decode_iter"):
                out.append({"limit": "bigcoded", "ce": ce, "size": size, "api": api})
    return out


def check_limit(rec: Rec, case: dict) -> None:
    from aiohttp import hdrs
    from aiohttp.multipart import MultipartReader
    from aiohttp.test_utils import make_mocked_request
    from aiohttp.web_exceptions import HTTPRequestEntityTooLarge

    loop = new_loop()
    try:
        asyncio.set_event_loop(loop)
        kind = case["limit"]
        b = b"BOUND"
        ctype = "multipart/mixed; boundary=BOUND"
        kw: dict = {}
        slack = 2 * case.get("seg", 0) + 16
        if kind in ("field", "headers"):
            if kind == "field":
                F = case["F"]
                L = F * case["k"]
                if case["shape"] == "value":
                    line = b"X-A: " + b"a" * L + b"\r\n"
                elif case["shape"] == "name":
                    line = b"X-" + b"a" * L + b": v\r\n"
                else:
                    line = b"a" * L  # never ends: no CRLF at all
                hdr = line
                kw = {"max_field_size": F}
                allowed_after_start = F + 4
            else:
                H = case["H"]
                n = H * case["k"]
                hdr = b"".join(b"X-%d: v\r\n" % i for i in range(n))
                kw = {"max_headers": H}
                allowed_after_start = len(b"".join(b"X-%d: v\r\n" % i for i in range(H + 2)))
            tail = b"\r\ncontent\r\n--BOUND--\r\n"
            if case["where"] == "first":
                pre = b"--BOUND\r\n"
            elif case["where"] == "second":
                pre = b"--BOUND\r\nX-Ok: 1\r\n\r\nfirst part\r\n--BOUND\r\n"
            else:
                pre = b"--BOUND\r\nContent-Type: multipart/mixed; boundary=IN\r\n\r\n--IN\r\n"
                tail = b"\r\ncontent\r\n--IN--\r\n--BOUND--\r\n"
            data = pre + hdr + tail
            start = len(pre)
            bound = start + allowed_after_start + slack
            stream, _ = make_stream(loop)
            reader = MultipartReader({hdrs.CONTENT_TYPE: ctype}, stream, **kw)
            stats = {"parts": 0, "budget": 10 ** 9}
            coro = walk_any(reader, "read", [CHUNK], stats)
            want_exc = Exception
        elif kind == "unlimited":
            # client_max_size=0 switches the size limit off (as it does for request.read() and request.post()): every way of
            # reading a part gives the whole content
            content = (b"0123456789abcdef" * 400)[: case["size"]]
            disp = b'Content-Disposition: form-data; name="f"' + (b'; filename="x.bin"' if case["api"] == "post-file" else b"") + b"\r\n"
            data = b"--BOUND\r\n" + disp + b"\r\n" + content + b"\r\n--BOUND--\r\n"
            stream, _ = make_stream(loop)
            req = make_mocked_request("POST", "/", headers={hdrs.CONTENT_TYPE: "multipart/form-data; boundary=BOUND"}, payload=stream, loop=loop, client_max_size=0)

            async def rd0():
                if case["api"].startswith("post"):
                    form = await req.post()
                    v = form["f"]
                    return v.encode() if isinstance(v, str) else v.file.read()
                reader = await req.multipart()
                part = await reader.next()
                return await part.read(decode=case["api"] == "multipart-read_decode")

            done, res, _ = drive_feed(loop, stream, segments(data, [1024]), rd0())
            if not done:
                raise Violation("reader-hangs", f"{case}: reading never finished")
            if isinstance(res, BaseException):
                raise Violation(hyp.exc_key(res, "unlimited-refused"), f"{case}: client_max_size=0 (no limit) but reading a {len(content)}-byte part raised {type(res).__name__}: {res}")
            if bytes(res) != content:
                raise Violation("content-mismatch/unlimited", f"{case}: got {len(res)} bytes, expected {len(content)}")
            rec.case(case, True, ["limit:unlimited", "api:" + case["api"]])
            return
        elif kind == "size":
            M = case["M"]
            total = M + 12 * CHUNK
            content = (b"0123456789abcdef" * (total // 16 + 1))[:total]
            if case["enc"] == "base64":
                part_hdr = b"Content-Transfer-Encoding: base64\r\n"
                content = base64.b64encode(content)[:total]
            else:
                part_hdr = b""
            if case["api"].startswith("post"):
                b = b"BOUND"
                disp = b'Content-Disposition: form-data; name="f"' + (b'; filename="x.bin"' if case["api"] == "post-file" else b"") + b"\r\n"
                pre = b"--BOUND\r\n" + disp + b"\r\n"
                data = pre + content + b"\r\n--BOUND--\r\n"
                stream, _ = make_stream(loop)
                req = make_mocked_request("POST", "/", headers={hdrs.CONTENT_TYPE: "multipart/form-data; boundary=BOUND"}, payload=stream, loop=loop, client_max_size=M)
                coro = req.post()
                want_exc = HTTPRequestEntityTooLarge
            else:
                nested = case["api"].endswith("-nested")
                pre = b"--BOUND\r\n" + part_hdr + b"X-Ok: 1\r\n\r\n"
                data = pre + content + b"\r\n--BOUND--\r\n"
                if nested:
                    # the same part one level down: the limit is the connection's, not the outermost reader's
                    opre = b"--OUT\r\nContent-Type: multipart/mixed; boundary=BOUND\r\n\r\n"
                    data = opre + data + b"\r\n--OUT--\r\n"
                    pre = opre + pre
                stream, _ = make_stream(loop)
                reader = MultipartReader({hdrs.CONTENT_TYPE: "multipart/mixed; boundary=OUT" if nested else ctype}, stream, client_max_size=M)

                async def rd():
                    part = await reader.next()
                    if nested:
                        part = await part.next()
                    if case["api"].startswith("read_decode"):
                        await part.read(decode=True)
                    elif case["api"] == "read-nested":
                        await part.read()
                    elif case["api"] == "read":
                        await part.read()
                    else:
                        await part.read(decode=True)

                coro = rd()
                want_exc = ValueError
            start = len(pre)
            bound = start + M + 4 * CHUNK + slack
        elif kind == "bigcoded":
            plain = (b"0123456789abcdef" * (case["size"] // 16 + 1))[: case["size"]]
            if case["ce"] == "gzip":
                co = zlib.compressobj(6, zlib.DEFLATED, 16 + zlib.MAX_WBITS)
            else:
                co = zlib.compressobj(6, zlib.DEFLATED, -zlib.MAX_WBITS)
            comp = co.compress(plain) + co.flush()
            data = b"--BOUND\r\nContent-Encoding: " + case["ce"].encode() + b"\r\n\r\n" + comp + b"\r\n--BOUND--\r\n"
            stream, _ = make_stream(loop)
            reader = MultipartReader({hdrs.CONTENT_TYPE: ctype}, stream)

            async def rd3():
                part = await reader.next()
                if case["api"] == "read_decode":
                    return bytes(await part.read(decode=True))
                raw = bytes(await part.read())
                if case["api"] == "decode":
                    return bytes(part.decode(raw))
                out = bytearray()
                async for piece in part.decode_iter(raw):
                    out += piece
                return bytes(out)

            done, res, fed = drive_feed(loop, stream, segments(data, [8192]), rd3())
            if not done:
                raise Violation("limit/hang", f"{case}: reader blocked forever")
            if isinstance(res, BaseException):
                raise Violation(hyp.exc_key(res, "bigcoded-raised"), f"{case}: {res!r}")
            if res != plain:
                raise Violation("content-mismatch/bigcoded", f"{case}: {len(plain)} bytes sent compressed, {len(res)} bytes came back"
                                + ("" if plain.startswith(res) else " (not even a prefix)"))
            rec.case(case, True, ["bigcoded"])
            return
        else:  # bomb
            M = case["M"]
            plain = b"\0" * (M * case["factor"])
            if case["ce"] == "gzip":
                co = zlib.compressobj(9, zlib.DEFLATED, 16 + zlib.MAX_WBITS)
            else:
                co = zlib.compressobj(9, zlib.DEFLATED, -zlib.MAX_WBITS)
            comp = co.compress(plain) + co.flush()
            del plain
            pre = b"--BOUND\r\nContent-Encoding: " + case["ce"].encode() + b"\r\n\r\n"
            data = pre + comp + b"\r\n--BOUND--\r\n"
            if len(comp) >= M:
                raise AssertionError("bomb too weak")
            stream, _ = make_stream(loop)
            reader = MultipartReader({hdrs.CONTENT_TYPE: ctype}, stream, client_max_size=M)

            async def rd2():
                part = await reader.next()
                await part.read(decode=True)

            tracemalloc.start()
            try:
                base_mem = tracemalloc.get_traced_memory()[0]
                done, res, fed = drive_feed(loop, stream, segments(data, [4096]), rd2())
                peak = tracemalloc.get_traced_memory()[1] - base_mem
            finally:
                tracemalloc.stop()
            if not done:
                raise Violation("limit/hang", f"{case}: reader blocked forever")
            if not isinstance(res, ValueError):
                raise Violation("limit/bomb-not-refused", f"{case}: decoded size {M * case['factor']} over client_max_size {M} ended with {res!r}")
            allowed = 6 * M + 2 ** 21
            if peak > allowed:
                raise Violation("limit/bomb-buffered", f"{case}: peak allocation {peak} bytes while refusing a part whose limit is {M} (allowed {allowed})")
            rec.case(case, True, ["bomb"])
            return
        done, res, fed = drive_feed(loop, stream, segments(data, [case["seg"]]), coro)
        if not done:
            raise Violation("limit/hang", f"{case}: reader blocked forever")
        if not isinstance(res, Exception) or isinstance(res, Violation):
            raise Violation("limit/not-enforced", f"{case}: over-limit input ended with {res!r} instead of an error")
        if not isinstance(res, want_exc):
            raise Violation("limit/wrong-error", f"{case}: expected {want_exc.__name__}, got {type(res).__name__}: {res}")
        if fed > bound:
            raise Violation("limit/enforced-late", f"{case}: error {type(res).__name__} surfaced only after {fed} bytes were fed; the limit allows {bound} (item starts at {start})")
        rec.case(case, True, [kind, type(res).__name__])
    finally:
        asyncio.set_event_loop(None)
        loop.shutdown()


def unit_limits(rec: Rec) -> None:
    rec.exhaustive = True
    for case in limit_cases(rec.tier):
        try:
            check_limit(rec, case)
        except Violation as v:
            rec.fail(v.key, v.msg, case)


# ----------------------------------------------------------------------------------------------------------------------


def check_raw(rec: Rec, case: dict) -> None:
    verdict, stats = run_walk(case["raw"], case["ctype"], case["api"], case["sizes"], case["plan"])
    if verdict == "hang":
        raise Violation("walk-hangs-after-eof", f"reader still blocked after EOF; case={case}")
    if verdict.startswith("budget"):
        raise Violation("walk-does-not-terminate", f"{verdict}: more than {stats['budget']} stream operations on {len(case['raw'])} bytes; case={case}")
    rec.case(case, stats["parts"] > 0, [verdict, "api:" + case["api"], "raw"])


def unit_atheris(rec: Rec, shard: int, runs: int) -> None:
    """Coverage-guided campaign on the reader (thorough tier): valid bodies as the starting corpus."""
    import os
    import shutil
    import subprocess
    import sys
    import tempfile

    from hypothesis import HealthCheck, given, seed as hseed, settings

    verif = os.path.dirname(os.path.dirname(os.path.abspath(__file__)))
    deps = os.path.join(verif, ".deps")
    target = os.path.join(verif, "vlib", "fuzz_multipart.py")
    corpus = tempfile.mkdtemp(prefix="c19_corpus_")
    crashdir = tempfile.mkdtemp(prefix="c19_crash_")
    try:
        samples: list[bytes] = []

        @settings(max_examples=30, database=None, deadline=None, suppress_health_check=list(HealthCheck))
        @hseed(rec.seed * 1000 + shard)
        @given(writers())
        def collect(spec):
            spec = dict(spec, boundary="b")
            loop = new_loop()
            try:
                asyncio.set_event_loop(loop)
                try:
                    w = build_writer(spec)
                    cap = CapWriter()
                    loop.drive(w.write(cap))
                    samples.append(cap.data)
                except Exception:  # noqa: BLE001
                    pass
            finally:
                asyncio.set_event_loop(None)
                loop.shutdown()

        if shard % 2:
            collect()
        for i, body in enumerate(samples):
            with open(os.path.join(corpus, f"s{i}"), "wb") as f:
                f.write(bytes([i % 7, 0, i % 5, 3]) + body[:2000])
        env = dict(os.environ, PYTHONPATH=os.pathsep.join([os.environ.get("VERIF_REPO", "/repo"), verif]), FUZZ_CRASH_DIR=crashdir)
        cmd = [sys.executable, target, corpus, f"-runs={runs}", f"-seed={rec.seed * 100 + shard + 1}", "-max_len=600", "-timeout=30",
               f"-artifact_prefix={crashdir}/", "-print_final_stats=1"]
        r = subprocess.run(cmd, env=env, capture_output=True, text=True, timeout=3600)
        execs = 0
        for line in r.stderr.splitlines():
            if "stat::number_of_executed_units" in line:
                execs = int(line.split(":")[-1])
        if "No module named 'atheris'" in r.stderr:
            rec.extra["atheris"] = "unavailable"
            return
        rec.count(execs)
        rec.extra["atheris_execs"] = rec.extra.get("atheris_execs", 0) + execs
        from vlib import jsonx

        for fn in sorted(os.listdir(crashdir)):
            if fn.endswith(".json"):
                doc = jsonx.loads(open(os.path.join(crashdir, fn)).read())
                rec.fail(doc["key"], doc["msg"], doc["case"])
        if r.returncode != 0 and not os.listdir(crashdir):
            rec.extra["atheris_rc"] = r.returncode
            rec.extra["atheris_tail"] = r.stderr[-400:]
    finally:
        shutil.rmtree(corpus, ignore_errors=True)
        shutil.rmtree(crashdir, ignore_errors=True)


def units(tier: str, seed: int) -> list[Unit]:
    us = []
    nr = 400 if tier == "quick" else 6000
    for i in range(8):
        us.append(Unit(f"roundtrip{i}", unit_roundtrip, {"n": nr, "offset": i}))
    nf = 400 if tier == "quick" else 5000
    for i in range(3):
        us.append(Unit(f"form{i}", unit_form, {"n": nf, "offset": 100 + i}))
    nm = 600 if tier == "quick" else 10000
    for i in range(4):
        us.append(Unit(f"mutation{i}", unit_mutation, {"n": nm, "offset": 200 + i}))
    us.append(Unit("limits", unit_limits, {}))
    if tier == "thorough":
        for sh in range(4):
            us.append(Unit(f"atheris{sh}", unit_atheris, {"shard": sh, "runs": 60000}))
    return us


def replay(rec: Rec, case: dict) -> None:
    if "raw" in case:
        check_raw(rec, case)
    elif "limit" in case and "writer" not in case:
        check_limit(rec, case)
    elif "fields" in case:
        check_form(rec, case)
    elif "muts" in case:
        check_mutation(rec, case)
    else:
        check_roundtrip(rec, case)
