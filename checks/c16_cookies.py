"""C16 Cookie scoping: CookieJar history vs. an RFC 6265 reference store."""
from __future__ import annotations

import calendar
import os
import shutil
import tempfile
import time as _time

from hypothesis import strategies as st

from vlib import hyp
from vlib.runner import Rec, Unit, Violation

PROPERTY = "C16"
LEVEL = "exploration"
RULE = (
    "case = (jar config: unsafe, treat_as_secure_origin; history of ops: Set-Cookie (name in {a,b}, Domain absent/host/"
    "parent/sibling/suffix-lookalike/TLD/leading-dot, Path absent/'/'/'/x'/'/x/'/'/x/y'/relative, Secure, Max-Age, "
    "Expires) from a response URL of a host/scheme/path lattice; clock advance; clear(); clear(predicate); "
    "clear_domain; save+load into a fresh jar).  After every op filter_cookies() is queried for every URL of the "
    "lattice (hosts x schemes x paths) and compared with an RFC 6265 5.3/5.4 reference store (no public-suffix list).  "
    "Non-trivial = two stored cookies share a name across domain/path/host-only variants, or a save/load, an expiry "
    "or a clear happened.  distinct = canonical history."
)
ASSUMPTIONS = [
    "filter_cookies returns one cookie per name: the value sent must be one the reference store would send for that "
    "name (leak otherwise) and some value must be sent when the reference sends one (omission otherwise)",
    "aiohttp's documented IP rule (no cookies from/to IP hosts unless unsafe=True; IP cookies are host-only)",
    "no public-suffix list in either implementation; Domain values are lower-case; clock is aiohttp.cookiejar.time replaced by a virtual clock",
]

HOSTS = ["example.com", "sub.example.com", "a.sub.example.com", "badexample.com", "example.org", "127.0.0.1", "[::1]"]
SCHEMES = ["http", "https"]
PATHS = ["/", "/x", "/x/", "/x/y", "/xy", "/y/z"]
T0 = 1_700_000_000.0


class VClock:
    def __init__(self) -> None:
        self.now = T0

    def time(self) -> float:
        return self.now

    def __getattr__(self, name):
        return getattr(_time, name)


DATE_FORMATS = [
    "%a, %d %b %Y %H:%M:%S GMT",      # RFC 1123
    "%A, %d-%b-%y %H:%M:%S GMT",      # RFC 850, two-digit year
    "%a %b %e %H:%M:%S %Y",           # asctime()
    "%d %b %Y %H:%M:%S",              # no weekday, no zone
    "%a, %d-%b-%Y %H:%M:%S GMT",      # the Netscape cookie form
    "%d %B %Y %H:%M:%S GMT",          # full month name
    "%H:%M:%S %d %b %Y",              # time first
    "%a, %d %b %Y %H:%M:%S +0000",    # numeric zone (ignored by the RFC 6265 algorithm)
    "%a,%d %b %Y  %H:%M:%S\tGMT",     # odd delimiters
]
BAD_DATES = ["", "garbage", "32 Jan 2031 00:00:00 GMT", "Jan 2031 00:00:00", "01 Jan 2031", "01 Foo 2031 00:00:00", "01 Jan 2031 25:00:00 GMT", "01 Jan 1600 00:00:00 GMT"]


def http_date(ts: float, fmt: int = 0) -> str:
    """The same instant in one of the shapes the RFC 6265 5.1.1 date algorithm must accept (fmt < 100), lower-cased (100+)."""
    out = _time.strftime(DATE_FORMATS[fmt % 100 % len(DATE_FORMATS)], _time.gmtime(ts))
    return out.lower() if fmt >= 100 else out


def is_ip(host: str) -> bool:
    h = host.strip("[]")
    if ":" in h:
        return True
    parts = h.split(".")
    return len(parts) == 4 and all(p.isdigit() for p in parts)


# ------------------------------------------------------------------ reference store
def domain_match(domain: str, host: str) -> bool:
    """RFC 6265 5.1.3."""
    if host == domain:
        return True
    return host.endswith("." + domain) and not is_ip(host)


def default_path(path: str) -> str:
    """RFC 6265 5.1.4."""
    if not path or path[0] != "/":
        return "/"
    if path.count("/") == 1:
        return "/"
    return path[: path.rfind("/")]


def path_match(cookie_path: str, req_path: str) -> bool:
    if cookie_path == req_path:
        return True
    if req_path.startswith(cookie_path):
        if cookie_path.endswith("/"):
            return True
        if req_path[len(cookie_path)] == "/":
            return True
    return False


class RefStore:
    def __init__(self, unsafe: bool, secure_origins: set) -> None:
        self.unsafe = unsafe
        self.secure_origins = secure_origins
        self.cookies: dict[tuple, dict] = {}  # (name, domain, path) -> cookie
        self.graveyard: dict[str, str] = {}  # value -> why it may not be sent any more / was never accepted
        self.last_spelling: dict[tuple, str] = {}  # (name, domain, path without trailing slash) -> path as last set

    def expire(self, now: float) -> None:
        for k in [k for k, c in self.cookies.items() if c["expiry"] is not None and c["expiry"] <= now]:
            self.graveyard[self.cookies[k]["value"]] = "expired"
            del self.cookies[k]

    def set_cookie(self, sc: dict, url: tuple, now: float) -> None:
        scheme, host, path = url
        h = host.strip("[]")
        value = sc["value"]
        if is_ip(host) and not self.unsafe:
            self.graveyard[value] = "never-accepted(ip-host)"
            return
        dom = sc.get("domain")
        if dom:
            dom = dom.lower()  # RFC 6265 5.2.3: "Convert the cookie-domain to lower case"
            dom = dom.lstrip(".") if dom.startswith(".") else dom
        if dom:
            if not domain_match(dom, h):
                self.graveyard[value] = "never-accepted(domain-mismatch)"
                return
            host_only = False
            domain = dom
        else:
            host_only = True
            domain = h
        p = sc.get("path")
        if not p or p[0] != "/":
            p = default_path(path)
        expiry = None
        dontcare = False
        if sc.get("max_age") is not None:
            try:
                delta = int(sc["max_age"])
                expiry = now + max(min(delta, 10 ** 12), -10 ** 12)  # any number of digits is a number
            except ValueError:
                # RFC 6265 5.2.2: a Max-Age that is not a number is ignored, so Expires (if any, and if it parses) applies
                expiry = None
                if sc.get("bad_date") is None and sc.get("expires") is not None:
                    expiry = float(sc["expires"])
        elif sc.get("bad_date") is not None:
            expiry = None  # RFC 6265 5.2.1: a date that fails to parse -> the attribute is ignored (session cookie)
        elif sc.get("expires") is not None:
            expiry = float(sc["expires"])
        key = (sc["name"], domain, p)
        self.last_spelling[(sc["name"], domain, p.rstrip("/"))] = p
        old = self.cookies.get(key)
        if old is not None:
            self.graveyard[old["value"]] = "overwritten"
        self.cookies[key] = {"value": value, "host_only": host_only, "secure": bool(sc.get("secure")),
                             "expiry": expiry, "domain": domain, "path": p, "name": sc["name"], "dontcare": dontcare}
        self.graveyard.pop(value, None)  # a re-issued cookie may carry the value of the one it replaces
        self.expire(now)

    def clear(self) -> None:
        for c in self.cookies.values():
            self.graveyard[c["value"]] = "cleared"
        self.cookies.clear()

    def clear_if(self, pred, why: str) -> None:
        for k in [k for k, c in self.cookies.items() if pred(c)]:
            self.graveyard[self.cookies[k]["value"]] = why
            del self.cookies[k]

    def why_not(self, c: dict, url: tuple) -> str | None:
        scheme, host, path = url
        h = host.strip("[]")
        if is_ip(host) and not self.unsafe:
            return "ip-request"
        if c["host_only"]:
            if h != c["domain"]:
                return "host-only"
        elif not domain_match(c["domain"], h):
            return "domain"
        if not path_match(c["path"], path):
            return "path"
        if c["secure"] and scheme != "https" and (scheme, h) not in self.secure_origins:
            return "secure"
        return None

    def allowed(self, url: tuple) -> dict[str, set]:
        out: dict[str, set] = {}
        for c in self.cookies.values():
            if self.why_not(c, url) is None:
                out.setdefault(c["name"], set()).add(c["value"])
        return out


# ------------------------------------------------------------------ execution
_WORK = None


def workdir() -> str:
    global _WORK
    if _WORK is None:
        _WORK = tempfile.mkdtemp(prefix="c16_")
        import atexit

        atexit.register(shutil.rmtree, _WORK, True)
    return _WORK


def set_cookie_header(sc: dict) -> str:
    parts = [f"{sc['name']}={sc['value']}"]
    if sc.get("domain"):
        parts.append(f"Domain={sc['domain']}")
    if sc.get("path") is not None:
        parts.append(f"Path={sc['path']}")
    if sc.get("max_age") is not None:
        parts.append(f"Max-Age={sc['max_age']}")
    if sc.get("bad_date") is not None:
        parts.append(f"Expires={BAD_DATES[sc['bad_date'] % len(BAD_DATES)]}")
    elif sc.get("expires") is not None:
        parts.append(f"Expires={http_date(sc['expires'], sc.get('date_fmt', 0))}")
    if sc.get("junk") is not None:
        # attributes this client does not know, or text that is no attribute at all, ahead of the ones that matter
        # (RFC 6265 5.2: unrecognised attributes are ignored; what follows them still counts)
        parts.append(JUNK_ATTRS[sc["junk"] % len(JUNK_ATTRS)])
    if sc.get("secure"):
        parts.append("Secure")
    if sc.get("junk") is not None and sc["junk"] >= len(JUNK_ATTRS):
        parts.append("HttpOnly")
    return "; ".join(parts)


JUNK_ATTRS = ["Priority", "SameParty", "Comment=hello world", "Partitioned x"]


def feed_header(jar, header: str, url) -> None:
    """A Set-Cookie header is the peer's text: the jar takes it or ignores it, it never raises."""
    try:
        jar.update_cookies_from_headers([header], url)
    except Exception as e:  # noqa: BLE001
        raise Violation(hyp.exc_key(e, "jar-raised"), f"update_cookies_from_headers({header[:80]!r}{'...' if len(header) > 80 else ''}, {url}) raised {type(e).__name__}: {e}")


def execute(case: dict) -> dict:
    from yarl import URL

    import aiohttp.cookiejar as cj

    clock = VClock()
    real_time = cj.time
    cj.time = clock  # type: ignore[assignment]
    stats = {"shared_name": False, "saveload": 0, "expired": 0, "clears": 0, "queries": 0}
    try:
        unsafe = case["unsafe"]
        so = case.get("secure_origin")
        kwargs = {"unsafe": unsafe}
        secure_origins = set()
        if so:
            kwargs["treat_as_secure_origin"] = [URL(f"http://{so}")]
            secure_origins.add(("http", so))
        jar = cj.CookieJar(**kwargs)
        ref = RefStore(unsafe, secure_origins)
        counter = 0
        history: list = []  # (set-cookie dict with value, url) of every set op
        lattice = [(s, h, p) for h in HOSTS for s in SCHEMES for p in PATHS]

        def check_all(step: int, op) -> None:
            ref.expire(clock.now)
            for url in lattice:
                scheme, host, path = url
                u = URL(f"{scheme}://{host}{path}")
                sent = {k: m.value for k, m in jar.filter_cookies(u).items()}
                stats["queries"] += 1
                allowed = ref.allowed(url)
                for name, val in sent.items():
                    if val in allowed.get(name, ()):
                        continue
                    # leak: find out why the reference refuses
                    why = ref.graveyard.get(val)
                    if why is None:
                        c = next((c for c in ref.cookies.values() if c["value"] == val), None)
                        why = ref.why_not(c, url) if c else "unknown-value"
                        if c is not None and c["dontcare"]:
                            continue
                    raise Violation(f"leak/{why.split('(')[0]}", f"step {step} {op}: cookie {name}={val} sent to {u} but the RFC 6265 store refuses: {why}")
                for name, vals in allowed.items():
                    if name not in sent:
                        c = next(c for c in ref.cookies.values() if c["value"] in vals)
                        if any(cc["dontcare"] for cc in ref.cookies.values() if cc["value"] in vals):
                            continue
                        feat = []
                        cands = [cc for cc in ref.cookies.values() if cc["value"] in vals]
                        if all(ref.last_spelling.get((cc["name"], cc["domain"], cc["path"].rstrip("/"))) != cc["path"] for cc in cands):
                            # every candidate was followed by a Set-Cookie for the same name/domain whose
                            # path differs only by a trailing slash (aiohttp stores both under one key)
                            feat.append("slash-twin-overwrite")
                        if c["expiry"] is None:
                            feat.append("session")
                        if "slash-twin-overwrite" in feat:
                            feat = ["slash-twin-overwrite"]
                        raise Violation("omission/" + ("+".join(feat) or "plain"),
                                        f"step {step} {op}: cookie {name} in {sorted(vals)} ({c}) not sent to {u}")

        for step, op in enumerate(case["ops"]):
            kind = op[0]
            if kind == "set":
                sc = dict(op[1])
                url = tuple(op[2])
                counter += 1
                sc["value"] = f"v{counter}"
                if sc.get("expires_abs") is not None:
                    sc.pop("expires_in", None)
                    sc["expires"] = float(sc.pop("expires_abs"))  # 0 = "Thu, 01 Jan 1970 00:00:00 GMT", the classic deletion
                if sc.get("expires_in") is not None:
                    sc["expires"] = float(int(clock.now + sc.pop("expires_in")))
                ref.set_cookie(sc, url, clock.now)
                feed_header(jar, set_cookie_header(sc), URL(f"{url[0]}://{url[1]}{url[2]}"))
                history.append((sc, url))
            elif kind == "repeat":
                # the very same Set-Cookie header again (same value, same absolute Expires), e.g. after a clear() or a reload
                if not history:
                    continue
                sc0, url = history[-1]
                sc = dict(sc0)
                ref.set_cookie(sc, url, clock.now)
                feed_header(jar, set_cookie_header(sc), URL(f"{url[0]}://{url[1]}{url[2]}"))
                history.append((sc, url))
            elif kind == "set_plain":
                # the other way in: jar.update_cookies({name: value}, url) - a host-only cookie with the default path
                _, name, url = op
                url = tuple(url)
                counter += 1
                sc = {"name": name, "value": f"v{counter}"}
                ref.set_cookie(sc, url, clock.now)
                jar.update_cookies({name: sc["value"]}, URL(f"{url[0]}://{url[1]}{url[2]}"))
                history.append((sc, url))
            elif kind == "reissue":
                # the same cookie again (same name, value, path, attributes) from the same URL, but with the Domain attribute
                # toggled between absent (host-only) and the request host (domain cookie): same storage key, other scope
                if not history or is_ip(history[-1][1][1]):
                    continue
                sc0, url = history[-1]
                sc = dict(sc0)
                host = url[1]
                if sc.get("domain") is None:
                    sc["domain"] = host
                elif sc["domain"].lstrip(".") == host:
                    sc.pop("domain")
                else:
                    continue
                if sc.get("expires") is not None and sc.get("max_age") is None:
                    pass
                ref.set_cookie(sc, url, clock.now)
                feed_header(jar, set_cookie_header(sc), URL(f"{url[0]}://{url[1]}{url[2]}"))
                history.append((sc, url))
                stats["reissue"] = stats.get("reissue", 0) + 1
            elif kind == "churn":
                # a session-refresh cookie re-issued on many responses with a sliding lifetime: every re-issue schedules
                # another expiry (the jar keeps a heap of them and compacts it now and then)
                _, n_resp, lifetimes, url = op
                url = tuple(url)
                for k in range(n_resp):
                    counter += 1
                    sc = {"name": "z", "value": f"v{counter}", "max_age": str(lifetimes[k % len(lifetimes)])}
                    ref.set_cookie(sc, url, clock.now)
                    feed_header(jar, set_cookie_header(sc), URL(f"{url[0]}://{url[1]}{url[2]}"))
                    if k % 40 == 39:
                        jar.filter_cookies(URL(f"{url[0]}://{url[1]}{url[2]}"))  # a request in between (runs the expiry sweep)
                history.append((sc, url))
                stats["churn"] = stats.get("churn", 0) + 1
            elif kind == "tick":
                clock.now += op[1]
                n0 = len(ref.cookies)
                ref.expire(clock.now)
                stats["expired"] += n0 - len(ref.cookies)
            elif kind == "clear":
                jar.clear()
                ref.clear()
                stats["clears"] += 1
            elif kind == "clear_name":
                nm = op[1]
                jar.clear(lambda m: m.key == nm)
                ref.expire(clock.now)
                ref.clear_if(lambda c: c["name"] == nm, "cleared")
                stats["clears"] += 1
            elif kind == "clear_domain":
                d = op[1]
                jar.clear_domain(d)
                ref.expire(clock.now)
                ref.clear_if(lambda c: domain_match(d, c["domain"]), "cleared")
                stats["clears"] += 1
            elif kind == "saveload":
                path = os.path.join(workdir(), f"jar{os.getpid()}.json")
                jar.save(path)
                jar = cj.CookieJar(**kwargs)
                jar.load(path)
                stats["saveload"] += 1
            else:
                raise ValueError(op)
            check_all(step, op)
        names: dict[str, int] = {}
        for (n, d, p) in ref.cookies:
            names[n] = names.get(n, 0) + 1
        stats["shared_name"] = any(v > 1 for v in names.values())
        return stats
    finally:
        cj.time = real_time  # type: ignore[assignment]


def body(rec: Rec, case: dict) -> None:
    stats = execute(case)
    nt = stats["shared_name"] or stats["saveload"] or stats["expired"] or stats["clears"]
    labels = [k for k in ("shared_name", "saveload", "expired", "clears", "churn") if stats.get(k)]
    rec.case(case, bool(nt), labels)
    rec.extra["filter_queries"] = rec.extra.get("filter_queries", 0) + stats["queries"]


# ------------------------------------------------------------------ generators
DOMAINS = [None, None, "example.com", ".example.com", "sub.example.com", "com", "ample.com", "badexample.com",
           "example.org", "a.sub.example.com", "127.0.0.1", "Example.COM", ".SUB.example.com"]
SET_PATHS = [None, None, "/", "/x", "/x/y", "x", "/x/", "/x//", "//"]


def set_cookie_st(trailing_slash: bool):
    paths = SET_PATHS if trailing_slash else [p for p in SET_PATHS if p not in ("/x/", "/x//", "//")]
    return st.fixed_dictionaries(
        {"name": st.sampled_from(["a", "b"])},
        optional={
            "domain": st.sampled_from(DOMAINS),
            "path": st.sampled_from(paths),
            "secure": st.booleans(),
            "junk": st.sampled_from([None, None, None] + list(range(12))),
            "max_age": st.sampled_from(["0", "5", "50", "-1", "abc", "9" * 400, "-" + "9" * 400]),
            "expires_in": st.sampled_from([-10, 5, 50]),
            "expires_abs": st.sampled_from([None, None, None, None, None, None, 0, 1]),
            "date_fmt": st.sampled_from(list(range(9)) + [100, 103, 105]),
            "bad_date": st.sampled_from([None, None, None, None, None] + list(range(8))),
        },
    ).map(lambda d: {k: v for k, v in d.items() if v is not None})


@st.composite
def cases(draw, trailing_slash: bool = False):
    url = st.tuples(st.sampled_from(SCHEMES), st.sampled_from(HOSTS), st.sampled_from(PATHS))
    op = st.one_of(
        st.tuples(st.just("set"), set_cookie_st(trailing_slash), url),
        st.tuples(st.just("set"), set_cookie_st(trailing_slash), url),
        st.tuples(st.just("set"), set_cookie_st(trailing_slash), url),
        st.tuples(st.just("tick"), st.sampled_from([1, 5, 6, 50, 100])),
        st.just(("saveload",)),
        st.just(("reissue",)),
        st.just(("repeat",)),
        st.tuples(st.just("set_plain"), st.sampled_from(["a", "b"]), url),
        st.tuples(st.just("churn"), st.sampled_from([30, 101, 130, 220]), st.sampled_from([[300], [300, 200], [7, 300], [3]]), url),
        st.sampled_from([("clear",), ("clear_name", "a"), ("clear_domain", "example.com"), ("clear_domain", "sub.example.com")]),
    )
    return {
        "unsafe": draw(st.booleans()),
        "secure_origin": draw(st.sampled_from([None, None, "example.com"])),
        "ops": draw(st.lists(op, min_size=1, max_size=14)),
    }


def unit_hyp(rec: Rec, n: int, offset: int, trailing_slash: bool) -> None:
    hyp.run(rec, cases(trailing_slash), body, n, seed_offset=offset)


LIFE_OPS = [("set", {"name": "a", "expires_in": 5}, ("http", "example.com", "/")), ("set", {"name": "a", "max_age": "50"}, ("http", "example.com", "/")),
            ("set", {"name": "a"}, ("http", "example.com", "/")), ("clear",), ("clear_name", "a"), ("saveload",), ("repeat",), ("tick", 6), ("tick", 60)]


def unit_lifecycle(rec: Rec, shard: int, nshards: int, length: int) -> None:
    """Every history of `length` steps over one cookie: set (Expires / Max-Age / session), the same header again, clear,
    save+load, time passing."""
    import itertools

    rec.exhaustive = True
    for i, ops in enumerate(itertools.product(LIFE_OPS, repeat=length)):
        if i % nshards != shard:
            continue
        if ops[0][0] != "set":
            continue
        case = {"unsafe": False, "secure_origin": None, "ops": [list(o) for o in ops]}
        try:
            body(rec, case)
        except Violation as v:
            if rec.is_known(v.key):
                rec.known_hits[v.key] += 1
                continue
            if v.key in rec.muted:
                continue
            rec.fail(v.key, v.msg, case)
            rec.muted.add(v.key)


def units(tier: str, seed: int) -> list[Unit]:
    n = 400 if tier == "quick" else 6000
    us = [Unit(f"hist{i}", unit_hyp, {"n": n, "offset": i, "trailing_slash": False}) for i in range(12)]
    us += [Unit(f"slash{i}", unit_hyp, {"n": n, "offset": 50 + i, "trailing_slash": True}) for i in range(4)]
    us += [Unit(f"lifecycle{sh}", unit_lifecycle, {"shard": sh, "nshards": 4, "length": 4 if tier == "quick" else 5}) for sh in range(4)]
    return us


def replay(rec: Rec, case: dict) -> None:
    execute(case)
