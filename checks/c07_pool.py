"""C07 Connection pool: limits hold, nothing leaks, no waiter is forgotten."""
from __future__ import annotations

import asyncio
import logging

from hypothesis import strategies as st

from vlib import hyp, memnet
from vlib.detloop import new_loop
from vlib.runner import Rec, Unit, Violation

PROPERTY = "C07"
LEVEL = "exploration"
RULE = (
    "case = configuration (N <= 5 request tasks over H <= 3 endpoints, limit 0..3, limit_per_host 0..2, keep-alive or "
    "force_close, order in which waiter queues are scanned) and a schedule: a sequence of external events - start "
    "request i, connection attempt of i succeeds / fails, request i finishes (release / close), cancel task i, "
    "connector.close() - each followed by running the loop until idle, or delivered together with the next event in "
    "one loop iteration.  All schedules up to a length bound are enumerated by re-execution for small N; Hypothesis "
    "samples longer ones.  Oracle: harness-side counting model (connections handed out and not yet given back + "
    "attempts in progress) checked after every event against limit / limit_per_host; at every quiescent point no task "
    "is blocked waiting for a slot while the model shows one it can use; when all tasks are done nothing is counted in "
    "use; after close() every transport is closed and every blocked task has failed.  Non-trivial = the schedule "
    "contains a wait (limit reached) plus a cancel, failure or close.  distinct = (config, canonical event sequence)."
)
ASSUMPTIONS = [
    "BaseConnector.connect() is driven directly with stub requests carrying only a connection key (no proxy)",
    "asyncio FIFO scheduling; schedule nondeterminism = order/batching of the external events and the queue scan order (aiohttp.connector.random is replaced by a scripted shuffle)",
    "connector._acquired is read (when present) only for the final leak check",
]

logging.getLogger("aiohttp.client").disabled = True
logging.getLogger("asyncio").disabled = True

HOSTS = ["a", "b", "c"]


class Shuffle:
    """Scripted stand-in for the random module used by _release_waiter."""

    def __init__(self, mode: int) -> None:
        self.mode = mode

    def shuffle(self, lst: list) -> None:
        if self.mode == 1:
            lst.reverse()
        elif self.mode == 2 and len(lst) > 1:
            lst.append(lst.pop(0))


class StubTrace:
    """Trace whose callbacks really suspend (k loop iterations each), like a user trace doing I/O."""

    def __init__(self, k: int, fail_reuse: bool = False) -> None:
        self.k = k
        self.fail_reuse = fail_reuse  # a user callback that raises (its own bug, a timeout of its own ...)

    async def _y(self) -> None:
        for _ in range(self.k):
            await asyncio.sleep(0)

    async def send_connection_queued_start(self) -> None:
        await self._y()

    async def send_connection_queued_end(self) -> None:
        await self._y()

    async def send_connection_create_start(self) -> None:
        await self._y()

    async def send_connection_create_end(self) -> None:
        await self._y()

    async def send_connection_reuseconn(self) -> None:
        await self._y()
        if self.fail_reuse:
            raise RuntimeError("reuse trace callback failed")


class Sim:
    """One execution of a schedule prefix against a real connector."""

    def __init__(self, cfg: dict) -> None:
        import aiohttp.connector as cm
        from aiohttp import ClientTimeout
        from aiohttp.client_reqrep import ConnectionKey

        self.cfg = cfg
        self.cm = cm
        self.loop = new_loop()
        self.saved_random = cm.random
        cm.random = Shuffle(cfg.get("shuffle", 0))  # type: ignore[assignment]
        self.log: list = []
        self.n = len(cfg["hosts"])
        self.state = ["new"] * self.n  # new | waiting | connecting | holding | done | cancelled | failed
        self.tasks: list = [None] * self.n
        self.gates: dict[int, asyncio.Future] = {}
        self.finish: dict[int, asyncio.Future] = {}
        self.conns: dict[int, object] = {}
        self.errors: dict[int, BaseException] = {}
        self.closed = False
        self.max_in_use = 0
        self.waited = False
        self.timeout = ClientTimeout(total=None, connect=None)
        self.keys = [ConnectionKey(HOSTS[h], 80, False, True, None, None, None) for h in cfg["hosts"]]
        sim = self

        class Req:
            proxy = None

            def __init__(self, i: int) -> None:
                self.connection_key = sim.keys[i]
                self.i = i

        self.Req = Req
        MC = memnet.make_connector_class()

        def pf(req, idx):
            return memnet.ScriptPeer(), memnet.Plan(), memnet.Plan()

        def gate(req, idx):
            fut = self.loop.create_future()
            self.gates[req.i] = fut
            self.state[req.i] = "connecting"
            return fut

        async def mk():
            kw = dict(limit=cfg["limit"], limit_per_host=cfg["lph"])
            if cfg.get("force_close"):
                kw["force_close"] = True
            return MC(pf, log=self.log, connect_gate=gate, **kw)

        self.connector = self.loop.drive(mk())

    # ---- model
    def in_use(self, host=None) -> int:
        c = 0
        for i, s in enumerate(self.state):
            if s in ("connecting", "holding") and (host is None or self.cfg["hosts"][i] == host):
                c += 1
        return c

    def has_room(self, i: int) -> bool:
        lim, lph = self.cfg["limit"], self.cfg["lph"]
        if lim and self.in_use() >= lim:
            return False
        if lph and self.in_use(self.cfg["hosts"][i]) >= lph:
            return False
        return True

    # ---- events
    async def _task(self, i: int) -> None:
        self.state[i] = "waiting"
        try:
            traces = [StubTrace(self.cfg["trace_yields"], bool(self.cfg.get("trace_fail_reuse")))] if self.cfg.get("trace_yields") else []
            conn = await self.connector.connect(self.Req(i), traces, self.timeout)
        except asyncio.CancelledError:
            self.state[i] = "cancelled"
            raise
        except BaseException as e:  # noqa: BLE001
            self.state[i] = "failed"
            self.errors[i] = e
            return
        self.state[i] = "holding"
        self.conns[i] = conn
        fut = self.finish[i] = self.loop.create_future()
        try:
            how = await fut
        except asyncio.CancelledError:
            conn.close()
            self.state[i] = "cancelled"
            raise
        if how == "release":
            conn.release()
        else:
            conn.close()
        self.state[i] = "done"

    def enabled(self) -> list:
        ev = []
        started = [s != "new" for s in self.state]
        for i, s in enumerate(self.state):
            if s == "new":  # (also after the connector was closed: a retry of an in-flight request does just that)
                # symmetry: identical tasks (same host) start in index order
                if all(started[j] for j in range(i) if self.cfg["hosts"][j] == self.cfg["hosts"][i]):
                    ev.append(("start", i))
            elif s == "connecting":
                ev.append(("ok", i))
                ev.append(("fail", i))
                ev.append(("cancel", i))
            elif s == "holding":
                ev.append(("release", i))
                ev.append(("close", i))
                ev.append(("cancel", i))
            elif s in ("waiting", "starting"):
                ev.append(("cancel", i))
        if not self.closed and any(started):
            ev.append(("closeall",))
        return ev

    def apply(self, ev: tuple, settle=True) -> None:
        kind = ev[0]
        if kind == "start":
            i = ev[1]
            self.state[i] = "starting"
            self.tasks[i] = self.loop.create_task(self._task(i))
        elif kind in ("ok", "fail"):
            i = ev[1]
            fut = self.gates.pop(i, None)
            if fut is not None and not fut.done():
                if kind == "ok":
                    fut.set_result(None)
                else:
                    from aiohttp import ClientConnectorError

                    fut.set_exception(OSError(111, "refused"))
        elif kind in ("release", "close"):
            i = ev[1]
            fut = self.finish.get(i)
            if fut is not None and not fut.done():
                fut.set_result(kind)
        elif kind == "cancel":
            i = ev[1]
            t = self.tasks[i]
            if t is not None and not t.done():
                t.cancel()
        elif kind == "closeall":
            self.closed = True
            self.loop.create_task(self.connector.close())
        if settle is True:
            self.settle(ev)
        elif settle:
            # a bounded number of loop iterations: the next event lands between two callbacks of the same cascade
            for _ in range(int(settle)):
                self.loop.step()

    def settle(self, ev) -> None:
        self.loop.run_until_idle()
        for i, t in enumerate(self.tasks):
            # a task cancelled before it ever ran never updates its own state
            if t is not None and t.done() and self.state[i] == "starting":
                self.state[i] = "cancelled"
        self.check(ev)

    def check(self, ev) -> None:
        cfg = self.cfg
        lim, lph = cfg["limit"], cfg["lph"]
        tot = self.in_use()
        self.max_in_use = max(self.max_in_use, tot)
        if any(s == "waiting" for s in self.state):
            self.waited = True
        if not self.closed:
            if lim and tot > lim:
                raise Violation("limit-exceeded", f"{tot} connections in use or being established with limit={lim} after {ev}: states {self.state}")
            if lph:
                for h in set(cfg["hosts"]):
                    c = self.in_use(h)
                    if c > lph:
                        raise Violation("limit-per-host-exceeded", f"{c} connections for host {HOSTS[h]} with limit_per_host={lph} after {ev}: states {self.state}")
            # lost wake-up: quiescent, somebody waits, and the model says there is room for it
            for i, s in enumerate(self.state):
                if s == "waiting" and self.has_room(i):
                    raise Violation("lost-wakeup", f"task {i} (host {HOSTS[cfg['hosts'][i]]}) is blocked in connect() although a slot it can use is free after {ev}: states {self.state}")
        else:
            for i, s in enumerate(self.state):
                if s in ("waiting", "connecting"):
                    t = self.tasks[i]
                    if t is not None and not t.done() and s == "waiting":
                        raise Violation("waiter-survives-close", f"task {i} still blocked in connect() after connector.close(): states {self.state}")
        if self.loop.exc_contexts:
            ctx = self.loop.exc_contexts[0]
            e = ctx.get("exception")
            raise Violation(hyp.exc_key(e, "loop-exception") if e else "loop-exception", f"{ctx.get('message')}: {e!r} after {ev}"[:300])

    def final_checks(self) -> None:
        """Drive everything to an end state and check for leaks."""
        # finish whatever is still running: attempts succeed, holders release
        for _ in range(4 * self.n + 4):
            progressed = False
            for i, s in enumerate(self.state):
                if s == "connecting":
                    self.apply(("ok", i))
                    progressed = True
                elif s == "holding":
                    self.apply(("release", i))
                    progressed = True
            if not progressed:
                break
        stuck = [i for i, s in enumerate(self.state) if s in ("waiting", "connecting", "holding", "starting")]
        if stuck and not self.closed:
            raise Violation("lost-wakeup", f"tasks {stuck} never get a connection although everybody else has finished: states {self.state}")
        acq = getattr(self.connector, "_acquired", None)
        if not self.closed and acq is not None and len(acq) != 0:
            raise Violation("leaked-slot", f"{len(acq)} connection(s) still counted as acquired after every task finished: states {self.state}")
        per = getattr(self.connector, "_acquired_per_host", None)
        if not self.closed and per:
            if any(len(v) for v in per.values()):
                raise Violation("leaked-slot", f"per-host accounting not empty after every task finished: { {k.host: len(v) for k, v in per.items()} }")
        if not self.closed:
            self.apply(("closeall",))
        for ct, st_ in self.connector.transports:
            if not ct.closing:
                raise Violation("transport-open-after-close", f"{ct.name} still open after connector.close()")

    def dispose(self) -> None:
        self.cm.random = self.saved_random
        self.loop.shutdown()


def run_schedule(cfg: dict, events: list, batch: set | None = None, steps: dict | None = None) -> dict:
    """Execute a complete schedule (skipping events that are not enabled).

    batch: indexes of events after which the loop does not run at all before the next event;
    steps: index -> number of loop iterations to run after that event instead of running until idle."""
    sim = Sim(cfg)
    try:
        batch = batch or set()
        steps = {int(k): v for k, v in (steps or {}).items()}
        applied = []
        for ev in cfg.get("setup") or []:
            sim.apply(tuple(ev))
        for k, ev in enumerate(events):
            ev = tuple(ev)
            if ev not in sim.enabled():
                continue
            sim.apply(ev, settle=(steps[k] if k in steps else (k not in batch)))
            applied.append(ev)
        sim.settle(("end",))
        sim.final_checks()
        kinds = {e[0] for e in applied}
        return {"nt": sim.waited and bool(kinds & {"cancel", "fail", "closeall"}), "waited": sim.waited, "applied": applied}
    finally:
        sim.dispose()


def body(rec: Rec, case: dict) -> None:
    r = run_schedule(case["cfg"], case["events"], set(case.get("batch") or []), case.get("steps"))
    labels = []
    if r["waited"]:
        labels.append("waited")
    labels += sorted({"ev:" + e[0] for e in r["applied"]})
    rec.case({"cfg": case["cfg"], "ev": r["applied"], "b": sorted(case.get("batch") or []), "s": case.get("steps")}, r["nt"], labels)


# ------------------------------------------------------------------ exhaustive enumeration by re-execution
def enumerate_schedules(rec: Rec, cfg: dict, depth: int, shard: int = 0, nshards: int = 1) -> None:
    """DFS over event sequences; the enabled set is recomputed by re-running the prefix.

    A schedule entry is (event, settle): settle=False means the next event is delivered in the same loop
    iteration (before any task had a chance to run).  At most one such pair per schedule."""
    stack: list[list] = [[]]
    while stack:
        prefix = stack.pop()
        if rec.expired():
            rec.exhaustive = False
            return
        sim = Sim(cfg)
        try:
            try:
                for ev in cfg.get("setup") or []:
                    sim.apply(tuple(ev))  # the position the enumeration starts from
                for ev, settle in prefix:
                    sim.apply(ev, settle=settle)
                enabled = sim.enabled()
                if len(prefix) >= depth or not enabled:
                    sim.settle(("end",))
                    sim.final_checks()
                    kinds = {e[0] for e, _s in prefix}
                    nt = sim.waited and bool(kinds & {"cancel", "fail", "closeall"})
                    batched = any(s is not True for _e, s in prefix)
                    rec.case({"cfg": cfg, "ev": prefix}, nt, ["enum"] + (["waited"] if sim.waited else []) + (["batched"] if batched else []))
                    continue
            except Violation as v:
                rec.fail(v.key, v.msg, {"cfg": cfg, "events": [list(e) for e, _s in prefix], "steps": {str(k): int(s) for k, (_e, s) in enumerate(prefix) if s is not True}})
                continue
        finally:
            sim.dispose()
        can_batch = all(s is True for _e, s in prefix) and len(prefix) + 1 < depth
        if len(prefix) == SHARD_LEVEL and nshards > 1:
            # the subtrees below this level are dealt out to the shards
            key = sum((k + 1) * (hash_ev(e) + (0 if st_ is True else 7)) for k, (e, st_) in enumerate(prefix))
            if key % nshards != shard:
                continue
        for ev in reversed(enabled):
            stack.append(prefix + [(ev, True)])
            if can_batch and ev[0] in ("release", "close", "fail", "ok", "cancel"):
                for partial in (False, 1, 2):
                    stack.append(prefix + [(ev, partial)])


SHARD_LEVEL = 3
_EV_CODE = {"start": 1, "ok": 2, "fail": 3, "release": 4, "close": 5, "cancel": 6, "closeall": 7}


def hash_ev(e: tuple) -> int:
    return _EV_CODE[e[0]] * 5 + (e[1] if len(e) > 1 else 0)


CONFIGS_SMALL = [
    {"hosts": [0, 0], "limit": 1, "lph": 0},
    {"hosts": [0, 1], "limit": 1, "lph": 0},
    {"hosts": [0, 0, 0], "limit": 1, "lph": 0},
    {"hosts": [0, 0, 1], "limit": 1, "lph": 0},
    {"hosts": [0, 1, 1], "limit": 1, "lph": 0},
    {"hosts": [0, 0, 1], "limit": 2, "lph": 1},
    {"hosts": [0, 0, 0], "limit": 2, "lph": 0},
    {"hosts": [0, 0, 1], "limit": 0, "lph": 1},
    {"hosts": [0, 1, 2], "limit": 2, "lph": 1, "shuffle": 1},
    {"hosts": [0, 0, 1], "limit": 1, "lph": 0, "force_close": True},
    {"hosts": [0, 1, 0], "limit": 1, "lph": 0, "shuffle": 1},
    {"hosts": [0, 0, 1, 1], "limit": 2, "lph": 1, "shuffle": 2},
    {"hosts": [0, 0, 0], "limit": 1, "lph": 0, "trace_yields": 1},
    {"hosts": [0, 0, 1], "limit": 2, "lph": 1, "trace_yields": 2},
    {"hosts": [0, 0, 0], "limit": 2, "lph": 0, "trace_yields": 1, "trace_fail_reuse": True},
] + [
    # both limits at once, full house with waiters for both hosts behind it (setup), then every short continuation: which
    # waiter a release wakes depends on the (shuffled) key order
    {"hosts": [0, 1, 1, 1, 0], "limit": 2, "lph": 1, "shuffle": sh_, "depth": 3,
     "setup": [["start", 0], ["ok", 0], ["start", 1], ["ok", 1], ["start", 2], ["start", 3], ["start", 4]]} for sh_ in (0, 1, 2)
]


def unit_enum(rec: Rec, cfg: dict, depth: int, shard: int = 0, nshards: int = 1) -> None:
    rec.exhaustive = True
    enumerate_schedules(rec, cfg, depth, shard, nshards)


@st.composite
def cases(draw):
    n = draw(st.integers(2, 5))
    nh = draw(st.integers(1, 3))
    cfg = {"hosts": [draw(st.integers(0, nh - 1)) for _ in range(n)], "limit": draw(st.integers(0, 3)), "lph": draw(st.integers(0, 2)),
           "shuffle": draw(st.integers(0, 2)), "force_close": draw(st.booleans()), "trace_yields": draw(st.sampled_from([0, 0, 1, 2])),
           "trace_fail_reuse": draw(st.integers(0, 3)) == 0}
    ev = st.one_of(
        st.tuples(st.sampled_from(["start", "ok", "ok", "fail", "release", "release", "close", "cancel"]), st.integers(0, n - 1)),
        st.just(("closeall",)),
    )
    events = [("start", i) for i in range(draw(st.integers(1, n)))] + draw(st.lists(ev, min_size=2, max_size=16))
    batch = draw(st.sets(st.integers(0, len(events) - 1), max_size=4))
    steps = draw(st.dictionaries(st.integers(0, len(events) - 1).map(str), st.integers(1, 3), max_size=4))
    return {"cfg": cfg, "events": events, "batch": sorted(batch), "steps": steps}


def unit_hyp(rec: Rec, n: int, offset: int) -> None:
    hyp.run(rec, cases(), body, n, seed_offset=offset, max_root_causes=5)


def units(tier: str, seed: int) -> list[Unit]:
    us = []
    depth = 6 if tier == "quick" else 9
    ns = 3 if tier == "quick" else 8
    for k, cfg in enumerate(CONFIGS_SMALL):
        d = cfg.get("depth") or (depth if len(cfg["hosts"]) <= 3 else depth - 1)
        for sh in range(ns):
            us.append(Unit(f"enum{k}.{sh}", unit_enum, {"cfg": cfg, "depth": d, "shard": sh, "nshards": ns}))
    n = 400 if tier == "quick" else 15000
    for i in range(6):
        us.append(Unit(f"hyp{i}", unit_hyp, {"n": n, "offset": i}))
    return us


def replay(rec: Rec, case: dict) -> None:
    run_schedule(case["cfg"], [tuple(e) for e in case.get("events") or case.get("ev") or []], set(case.get("batch") or case.get("b") or []),
                 case.get("steps") or case.get("s"))
