"""C03 HTTP parsing does not depend on how the byte stream is segmented."""
from __future__ import annotations

from hypothesis import strategies as st

from vlib import hyp, refhttp
from vlib.parsedrive import drive
from vlib.runner import Rec, Unit, Violation

PROPERTY = "C03"
LEVEL = "exploration"
RULE = (
    "case = (parser kind request|response-lax|response-strict, limits (max_line_size, max_field_size, max_headers, read "
    "buffer limit; equal and unequal), byte stream: grammar-generated valid pipelines, one named mutation class, raw "
    "byte mutations, or limit-edge streams with one syntactic element sized limit-1/limit/limit+1; segmentation: ALL "
    "1-cuts and 2-cuts for streams <= 150 bytes, else bytewise + cuts at/around every line end + random k-cuts).  "
    "Oracle: differential against the one-read (and byte-at-a-time) outcome of the same parser: messages, fields, body "
    "bytes, chunk boundaries, rejected flag, EOF outcome, size-limit flag for limit-edge streams.  Non-trivial = a cut "
    "falls strictly inside a syntactic element (not on a message boundary).  distinct = (config, stream, cut tuple)."
)
ASSUMPTIONS = [
    "a rejected stream may deliver fewer (never different) messages under a different segmentation (earlier notice)",
    "the size-limit flag is compared only for streams whose only defect is the generated limit excess",
    "payload streams are drained by the harness; with a small read-buffer limit the protocol pause/resume path is exercised and only body bytes are compared",
]

HEAD_KEYS = ("method", "path", "version", "url", "code", "reason", "raw_headers", "should_close", "compression", "upgrade", "chunked")


def head(m: dict):
    return tuple((k, m[k]) for k in HEAD_KEYS if k in m)


def full(o, with_bounds: bool):
    ms = []
    for m in o.messages:
        t = head(m) + (("body", m["body"]), ("state", m.get("payload_state")))
        if with_bounds:
            t += (("bounds", m.get("bounds")),)
        ms.append(t)
    return (tuple(ms), o.upgraded, o.tail, o.eof_error, o.eof_msg)


def describe(o) -> str:
    return (f"{len(o.messages)} msg(s) {[ (m.get('method') or m.get('code'), len(m['body']), m.get('payload_state')) for m in o.messages]} "
            f"error={o.error}({o.error_msg[:60]}) eof_error={o.eof_error} eof_msg={o.eof_msg} upgraded={o.upgraded} tail={o.tail[:20]!r}")


def cutsets(stream: bytes, exhaustive_max: int, randoms: list):
    n = len(stream)
    if n <= exhaustive_max:
        for i in range(1, n):
            yield (i,)
        for i in range(1, n):
            for j in range(i + 1, n):
                yield (i, j)
        return
    # structural cuts: around every CR / LF
    pts = set()
    for k, b in enumerate(stream):
        if b in (13, 10):
            pts.update({k, k + 1})
    pts = sorted(p for p in pts if 0 < p < n)
    for p in pts:
        yield (p,)
    for a, b in zip(pts, pts[1:]):
        yield (a, b)
    for cs in randoms:
        c = tuple(sorted({x % n for x in cs} - {0}))
        if c:
            yield c


def check_stream(rec: Rec, case: dict) -> None:
    stream = case["stream"]
    kind = case["kind"]
    kw = dict(limits=case.get("limits") or {}, read_limit=case.get("read_limit", 2 ** 20), strict_response=(kind == "response-strict"),
              drain=case.get("read_limit", 2 ** 20) < 2 ** 16)
    pk = "request" if kind == "request" else "response"
    with_bounds = not kw["drain"]
    one = drive(pk, stream, (), **kw)
    n = len(stream)
    byte = drive(pk, stream, tuple(range(1, n)), **kw) if n > 1 else one
    msg_edges = set(case.get("edges") or [])
    label = case.get("cls", "valid")

    def only_later(quiet, quiet_cuts) -> bool:
        """One run rejected, the other is still waiting for the end of a line / header block: is the verdict merely later?
        Complete the pending element for the quiet run; it must then reject too without delivering anything more."""
        # ... which presupposes that something IS pending: a run that has consumed the whole stream and would parse a fresh
        # message next has accepted what the other run rejected
        fresh = b"GET /zz HTTP/1.1\r\nHost: a\r\n\r\n" if pk == "request" else b"HTTP/1.1 204 No Content\r\n\r\n"
        probe = drive(pk, stream + fresh, tuple(quiet_cuts) + (n,), **kw)
        if probe.error is None and len(probe.messages) == len(quiet.messages) + 1:
            return False
        for suffix in (b"\r\n\r\n", b"\r\n", b"\n\r\n\r\n"):
            probe = drive(pk, stream + suffix, tuple(quiet_cuts) + (n,), **kw)
            if probe.error is not None and len(probe.messages) == len(quiet.messages):
                return True
        return False

    def compare(o, cuts) -> None:
        if (o.error is not None) != (one.error is not None):
            quiet, qc = (one, ()) if one.error is None else (o, () if cuts == "bytewise" else cuts)
            if cuts == "bytewise" and quiet is o:
                qc = tuple(range(1, n))
            # (a quiet run that fails at end-of-stream has not accepted the stream either: it was still inside a message)
            if quiet.eof_error is not None or only_later(quiet, qc):
                rec.label("reject-only-later")
                return
            raise Violation(
                "rejected-depends-on-cuts" + ("/limit" if (o.limit or one.limit) else ""),
                f"{kind} {case.get('limits')} class={label} cuts={cuts}: one read -> {describe(one)}; cut -> {describe(o)}",
            )
        if one.error is None:
            if full(o, with_bounds) != full(one, with_bounds):
                raise Violation(
                    "outcome-depends-on-cuts",
                    f"{kind} {case.get('limits')} class={label} cuts={cuts}: one read -> {describe(one)}; cut -> {describe(o)}",
                )
        else:
            # rejected: delivered messages must be a prefix of the most-delivering (bytewise) run
            if len(o.messages) > len(byte.messages) or any(head(a) != head(b) for a, b in zip(o.messages, byte.messages)):
                raise Violation(
                    "rejected-stream-different-messages",
                    f"{kind} class={label} cuts={cuts}: bytewise -> {describe(byte)}; cut -> {describe(o)}",
                )
            for a, b in zip(o.messages, byte.messages):
                if not b["body"].startswith(a["body"]) and not a["body"].startswith(b["body"]):
                    raise Violation("rejected-stream-different-body", f"{kind} class={label} cuts={cuts}")
            if case.get("limit_only") and o.limit != one.limit:
                raise Violation("limit-flag-depends-on-cuts", f"{kind} {case.get('limits')} class={label} cuts={cuts}: one read limit={one.limit} ({one.error}), cut limit={o.limit} ({o.error})")

    rec.case({"k": kind, "l": case.get("limits"), "s": stream, "c": []}, False, [label, kind])
    compare(byte, "bytewise")
    for cuts in cutsets(stream, case.get("exhaustive_max") or (100 if rec.tier == "quick" else 150), case.get("randoms") or [[5, 50], [1, 2, 3], [n // 2], [n - 1, n - 2]]):
        o = drive(pk, stream, cuts, **kw)
        inside = any(c not in msg_edges for c in cuts)
        rec.case({"k": kind, "l": case.get("limits"), "s": stream, "c": list(cuts)}, inside, ["cut_inside"] if inside else [])
        compare(o, cuts)


# ------------------------------------------------------------------ generators
LIMITS = [
    {},
    {"max_line_size": 64, "max_field_size": 64, "max_headers": 12},
    {"max_line_size": 40, "max_field_size": 80, "max_headers": 12},
    {"max_line_size": 80, "max_field_size": 40, "max_headers": 12},
    {"max_line_size": 8190, "max_field_size": 8190, "max_headers": 6},
]


@st.composite
def request_cases(draw, mode: str):
    limits = draw(st.sampled_from(LIMITS))
    if mode == "valid":
        pl = draw(refhttp.pipelines(max_n=3, max_body=40))
        stream, cls = pl["bytes"], "valid"
        edges = list(pl["offsets"])
    elif mode == "after_close":
        # a complete request that asks to close, followed by more bytes (a request or garbage)
        first = draw(refhttp.requests(last=True, max_body=20))
        if first["conn"] != "close" and first["version"] != "HTTP/1.0":
            first = dict(first, bytes=first["bytes"].replace(b"\r\n", b"\r\nConnection: close\r\n", 1), conn="close")
        rest = draw(st.one_of(refhttp.requests(max_body=10).map(lambda r: r["bytes"]), st.sampled_from([b"\r\n", b"x", b"GET / HTTP/1.1\r\n"])))
        stream, cls, edges = first["bytes"] + rest, "after_close", [len(first["bytes"])]
    elif mode == "mutated":
        m = draw(refhttp.mutated_pipelines(max_n=2, max_body=30))
        stream, cls, edges = m["bytes"], m["cls"], []
    else:
        m = draw(refhttp.raw_mutations(max_n=2))
        stream, cls, edges = m["bytes"], "raw", []
    read_limit = draw(st.sampled_from([2 ** 20, 2 ** 20, 2 ** 20, 4, 16]))
    return {"kind": "request", "limits": limits, "stream": stream, "cls": cls, "edges": edges, "read_limit": read_limit}


@st.composite
def response_cases(draw):
    strict = draw(st.booleans())
    lf = (not strict) and draw(st.booleans())
    rs = draw(refhttp.response_streams(lf_endings=lf))
    stream = rs["bytes"]
    if draw(st.integers(0, 4)) == 0 and len(stream) > 3:
        stream = stream[: draw(st.integers(1, len(stream) - 1))]
    # line-ending damage (the lax response parser tolerates some of it; whatever it decides must not depend on the cuts)
    muts = draw(st.lists(st.tuples(st.sampled_from(["cr_before_eol", "drop_cr", "dup_lf", "sp_before_eol", "cr_anywhere"]), st.integers(0, 10 ** 6)), max_size=2)
                if draw(st.integers(0, 2)) == 0 else st.just([]))
    for kind, r in muts:
        stream = eol_damage(stream, kind, r)
    limits = draw(st.sampled_from(LIMITS))
    read_limit = draw(st.sampled_from([2 ** 20, 2 ** 20, 8]))
    return {"kind": "response-strict" if strict else "response-lax", "limits": limits, "stream": stream,
            "cls": ("resp-lf" if lf else "resp") + ("-eol-damage" if muts else ""), "edges": [], "read_limit": read_limit}


def eol_damage(stream: bytes, kind: str, r: int) -> bytes:
    lfs = [i for i, b in enumerate(stream) if b == 0x0A]
    if kind == "cr_anywhere" or not lfs:
        i = r % (len(stream) + 1)
        return stream[:i] + b"\r" + stream[i:]
    i = lfs[r % len(lfs)]
    if kind == "cr_before_eol":
        j = i - 1 if i > 0 and stream[i - 1] == 0x0D else i
        return stream[:j] + b"\r" + stream[j:]
    if kind == "drop_cr":
        return stream[: i - 1] + stream[i:] if i > 0 and stream[i - 1] == 0x0D else stream
    if kind == "dup_lf":
        return stream[:i] + b"\n" + stream[i:]
    j = i - 1 if i > 0 and stream[i - 1] == 0x0D else i
    return stream[:j] + b" " + stream[j:]


@st.composite
def limit_edge_cases(draw):
    """One syntactic element sized limit-1 / limit / limit+1, every other element short."""
    L = draw(st.sampled_from([24, 40]))
    F = draw(st.sampled_from([24, 40]))
    H = draw(st.sampled_from([5, 8]))
    limits = {"max_line_size": L, "max_field_size": F, "max_headers": H}
    delta = draw(st.sampled_from([-1, 0, 1]))
    pos = draw(st.sampled_from(["request_line", "header", "second_header", "header_count", "chunk_size_line", "trailer", "trailer_count",
                                "second_request_line", "status_line", "resp_header"]))
    kind = "request"

    def line_of(prefix: str, total: int) -> str:
        return prefix + "a" * max(0, total - len(prefix))

    if pos in ("status_line", "resp_header"):
        kind = draw(st.sampled_from(["response-lax", "response-strict"]))
        st_line = "HTTP/1.1 200 " + ("r" * max(0, L + delta - 13) if pos == "status_line" else "OK")
        hdr = line_of("X-P: ", F + delta) if pos == "resp_header" else "X-P: v"
        stream = f"{st_line}\r\n{hdr}\r\nContent-Length: 2\r\n\r\nok".encode()
    else:
        rl = line_of("GET /", L + delta - 9) + " HTTP/1.1" if pos == "request_line" else "GET /p HTTP/1.1"
        hdrs = ["Host: a"]
        if pos == "header":
            hdrs.insert(draw(st.integers(0, 1)), line_of("X-P: ", F + delta))
        if pos == "second_header":
            hdrs += ["X-Q: 1", line_of("X-P: ", F + delta)]
        if pos == "header_count":
            hdrs += [f"X-{i}: v" for i in range(max(0, H - 2 + delta - 1))]
        body = ""
        if pos in ("chunk_size_line", "trailer", "trailer_count"):
            hdrs.append("Transfer-Encoding: chunked")
            csl = line_of("3;x=", L + delta) if pos == "chunk_size_line" else "3"
            trailers = []
            if pos == "trailer":
                trailers = [line_of("X-T: ", F + delta)]
            if pos == "trailer_count":
                trailers = [f"T{i}: v" for i in range(max(0, H - len(hdrs) - 2 + delta))]
            body = f"{csl}\r\nabc\r\n0\r\n" + "".join(t + "\r\n" for t in trailers) + "\r\n"
        stream = (rl + "\r\n" + "".join(h + "\r\n" for h in hdrs) + "\r\n" + body).encode()
        if pos == "second_request_line":
            stream = b"GET /first HTTP/1.1\r\nHost: a\r\n\r\n" + (line_of("GET /", L + delta - 9) + " HTTP/1.1\r\nHost: a\r\n\r\n").encode()
    return {"kind": kind, "limits": limits, "stream": stream, "cls": f"limit/{pos}/{delta:+d}", "edges": [], "limit_only": True}


def body(rec: Rec, case: dict) -> None:
    check_stream(rec, case)


def unit_req(rec: Rec, n: int, offset: int, mode: str) -> None:
    hyp.run(rec, request_cases(mode), body, n, seed_offset=offset)


def unit_resp(rec: Rec, n: int, offset: int) -> None:
    hyp.run(rec, response_cases(), body, n, seed_offset=offset)


def unit_limits(rec: Rec, n: int, offset: int) -> None:
    hyp.run(rec, limit_edge_cases(), body, n, seed_offset=offset)


def compressed_streams() -> list[dict]:
    """Bodies with a content coding (decoded by the parser): the coding sniffing and the decompressor see the body in pieces."""
    import gzip
    import zlib

    text = (b"The quick brown fox jumps over the lazy dog. " * 6)[:230]
    raw = zlib.compressobj(6, zlib.DEFLATED, -15)
    codings = {"gzip": gzip.compress(text, mtime=0), "deflate": zlib.compress(text), "deflate-raw": raw.compress(text) + raw.flush()}
    out = []
    for name, comp in codings.items():
        ce = b"Content-Encoding: " + name.split("-")[0].encode() + b"\r\n"
        for framing in ("cl", "chunked", "chunked-small"):
            if framing == "cl":
                fr, payload = b"Content-Length: %d\r\n" % len(comp), comp
            else:
                step = 5 if framing == "chunked-small" else 64
                payload = b"".join(b"%x\r\n" % len(comp[i:i + step]) + comp[i:i + step] + b"\r\n" for i in range(0, len(comp), step)) + b"0\r\n\r\n"
                fr = b"Transfer-Encoding: chunked\r\n"
            nxt_req = b"GET /next HTTP/1.1\r\nHost: a\r\n\r\n"
            out.append({"kind": "request", "stream": b"POST /c HTTP/1.1\r\nHost: a\r\n" + ce + fr + b"\r\n" + payload + nxt_req, "cls": f"compressed/{name}/{framing}",
                        "limits": {}, "exhaustive_max": 160})
            for rk in ("response-lax", "response-strict"):
                out.append({"kind": rk, "stream": b"HTTP/1.1 200 OK\r\n" + ce + fr + b"\r\n" + payload + b"HTTP/1.1 204 No Content\r\n\r\n", "cls": f"compressed/{name}/{framing}",
                            "limits": {}, "exhaustive_max": 160})
    return out


def eol_streams() -> list[dict]:
    """Every single line-ending damage (extra CR, missing CR, doubled LF, space before the line end, a CR at any offset) in
    fixed chunked / Content-Length / LF-only messages, for the strict and the lax parsers; cuts around every CR and LF."""
    resp = (b"HTTP/1.1 200 OK\r\nTransfer-Encoding: chunked\r\nX: y\r\n\r\n5\r\nhello\r\n3;e=1\r\nabc\r\n0\r\nT: v\r\n\r\n"
            b"HTTP/1.1 204 No Content\r\n\r\n")
    resp_cl = b"HTTP/1.1 200 OK\r\nContent-Length: 5\r\nX: y\r\n\r\nhelloHTTP/1.1 204 No Content\r\n\r\n"
    req = (b"POST /a HTTP/1.1\r\nHost: a\r\nTransfer-Encoding: chunked\r\n\r\n5\r\nhello\r\n3;e=1\r\nabc\r\n0\r\nT: v\r\n\r\n"
           b"GET /next HTTP/1.1\r\nHost: a\r\n\r\n")
    out = []
    for name, base, kinds in (("resp-chunked", resp, ("response-lax", "response-strict")), ("resp-cl", resp_cl, ("response-lax", "response-strict")),
                              ("resp-chunked-lf", resp.replace(b"\r\n", b"\n"), ("response-lax",)), ("req-chunked", req, ("request",))):
        nlf = base.count(b"\n")
        variants = {base}
        for kind in ("cr_before_eol", "drop_cr", "dup_lf", "sp_before_eol"):
            for r in range(nlf):
                variants.add(eol_damage(base, kind, r))
        for r in range(len(base) + 1):
            variants.add(eol_damage(base, "cr_anywhere", r))
        for v in sorted(variants):
            for k in kinds:
                out.append({"kind": k, "stream": v, "cls": f"eol-damage/{name}", "limits": {}, "exhaustive_max": 0})
    return out


def upgrade_streams() -> list[dict]:
    """A request that offers an upgrade AND has a body (the switch is deferred to the end of the body), followed by more
    bytes: another request, a websocket frame, nothing.  Every single cut and pair of cuts."""
    up = b"Connection: Upgrade\r\nUpgrade: websocket\r\n"
    out = []
    for body in (b"Content-Length: 10\r\n\r\n0123456789", b"Transfer-Encoding: chunked\r\n\r\n4\r\n0123\r\n6\r\n456789\r\n0\r\n\r\n",
                 b"Content-Length: 0\r\n\r\n", b"\r\n"):
        for after in (b"GET /after HTTP/1.1\r\nHost: a\r\n\r\n", b"\x81\x02hi", b""):
            for method in (b"POST", b"GET"):
                out.append({"kind": "request", "stream": method + b" /u HTTP/1.1\r\nHost: a\r\n" + up + body + after, "cls": "upgrade-with-body",
                            "limits": {}, "exhaustive_max": 200})
    return out


def unit_upgrade(rec: Rec) -> None:
    for case in upgrade_streams():
        try:
            body(rec, case)
        except Violation as v:
            if v.key in rec.muted:
                continue
            rec.fail(v.key, v.msg, case)
            rec.muted.add(v.key)
    rec.exhaustive = True


def unit_eol(rec: Rec, shard: int, nshards: int) -> None:
    for i, case in enumerate(eol_streams()):
        if i % nshards != shard:
            continue
        try:
            body(rec, case)
        except Violation as v:
            if v.key in rec.muted:
                continue
            rec.fail(v.key, v.msg, case)
            rec.muted.add(v.key)
    rec.exhaustive = True


def unit_compressed(rec: Rec, shard: int, nshards: int) -> None:
    for i, case in enumerate(compressed_streams()):
        if i % nshards != shard:
            continue
        try:
            body(rec, case)
        except Violation as v:
            if v.key in rec.muted:
                continue
            rec.fail(v.key, v.msg, case)
            rec.muted.add(v.key)
    rec.exhaustive = True


def units(tier: str, seed: int) -> list[Unit]:
    n = 14 if tier == "quick" else 250
    us = []
    for i in range(4):
        us.append(Unit(f"valid{i}", unit_req, {"n": n, "offset": i, "mode": "valid"}))
    for i in range(5):
        us.append(Unit(f"mutated{i}", unit_req, {"n": n, "offset": 20 + i, "mode": "mutated"}))
    for i in range(2):
        us.append(Unit(f"raw{i}", unit_req, {"n": n, "offset": 40 + i, "mode": "raw"}))
    us.append(Unit("after_close", unit_req, {"n": n, "offset": 50, "mode": "after_close"}))
    for i in range(4):
        us.append(Unit(f"resp{i}", unit_resp, {"n": n, "offset": 60 + i}))
    for i in range(4):
        us.append(Unit(f"limits{i}", unit_limits, {"n": n * 2, "offset": 80 + i}))
    for sh in range(3):
        us.append(Unit(f"compressed{sh}", unit_compressed, {"shard": sh, "nshards": 3}))
    for sh in range(3):
        us.append(Unit(f"eol{sh}", unit_eol, {"shard": sh, "nshards": 3}))
    us.append(Unit("upgrade", unit_upgrade, {}))
    return us


def replay(rec: Rec, case: dict) -> None:
    check_stream(rec, case)
