#!/usr/bin/env python3
"""Confirm a sub-agent's seeded change and run our check against it.

usage: seed_eval.py <PROP> <k> [--no-suite] [--check PROP2 ...] [--tier quick]
Reads /tmp/seedout_<PROP>/<k>/{patch.diff,demo.py,notes.md}; worktree /tmp/seed_<PROP>.
1. worktree clean -> demo passes; patch applied -> demo fails
2. (unless --no-suite) test suite with the patch: failing set == baseline failing set
3. git -C /repo apply patch; run_check.py for the property (and extra ones); git checkout
4. writes /verif/seeded/<PROP>_<k>/{patch.diff,demo.py,meta.json}
"""
import json
import os
import re
import shutil
import subprocess
import sys
import time

VERIF = os.path.dirname(os.path.dirname(os.path.abspath(__file__)))
ENV = dict(os.environ, AIOHTTP_NO_EXTENSIONS="1", PYTHONDONTWRITEBYTECODE="1")
BASELINE_FAIL = {
    "tests/test_multipart.py::test_body_part_reader_payload_write",
    "tests/test_web_urldispatcher.py::test_static_directory_without_read_permission[my_file.txt]",
    "tests/test_web_urldispatcher.py::test_static_file_without_read_permission",
}


def sh(cmd, cwd=None, env=ENV, timeout=3000):
    r = subprocess.run(cmd, shell=True, cwd=cwd, env=env, capture_output=True, text=True, timeout=timeout)
    return r.returncode, r.stdout + r.stderr


def main():
    prop, k = sys.argv[1], sys.argv[2]
    suite = "--no-suite" not in sys.argv
    tier = sys.argv[sys.argv.index("--tier") + 1] if "--tier" in sys.argv else "quick"
    extra = []
    if "--check" in sys.argv:
        i = sys.argv.index("--check") + 1
        while i < len(sys.argv) and not sys.argv[i].startswith("--"):
            extra.append(sys.argv[i]); i += 1
    rnd = os.environ.get("SEED_ROUND", "")  # round 2 worktrees are checkouts of /repo HEAD (after the fix: commits)
    wt = f"/tmp/seed{rnd}_{prop}"
    src = f"/tmp/seedout{rnd}_{prop}/{k}"
    patch = os.path.join(src, "patch.diff")
    demo = os.path.join(src, "demo.py")
    meta = {"property": prop, "k": k, "ran": []}
    demo_env = dict(ENV, AIOHTTP_SRC=wt, PYTHONPATH=wt)

    rc, out = sh("git status --porcelain", cwd=wt)
    if out.strip():
        print("worktree not clean:", out); return 2
    rc0, out0 = sh(f"/venv/bin/python {demo}", cwd=wt, env=demo_env, timeout=300)
    meta["ran"].append({"cmd": f"cd {wt} && python demo.py (unchanged)", "rc": rc0, "tail": out0[-300:]})
    rc, out = sh(f"git apply {patch}", cwd=wt)
    if rc:
        print("patch does not apply to pinned commit:", out); return 2
    try:
        rc1, out1 = sh(f"/venv/bin/python {demo}", cwd=wt, env=demo_env, timeout=300)
        meta["ran"].append({"cmd": f"cd {wt} && git apply patch.diff && python demo.py", "rc": rc1, "tail": out1[-400:]})
        print(f"demo unchanged rc={rc0}, with change rc={rc1}")
        meta["demo_confirmed"] = (rc0 == 0 and rc1 != 0)
        if suite:
            t0 = time.time()
            rc, out = sh("/venv/bin/python -m pytest -q -p no:cacheprovider --timeout=900 -n 8 "
                         "--continue-on-collection-errors -x --maxfail=20 2>&1 | tail -40", cwd=wt)
            failed = set(re.findall(r"^(?:FAILED|ERROR) (\S+)", out, re.M))
            summary = [l for l in out.splitlines() if re.search(r"\d+ passed", l)]
            new = {f for f in failed if f not in BASELINE_FAIL and "without_read_permission" not in f}
            meta["suite"] = {"summary": summary[-1] if summary else out[-300:], "new_failures": sorted(new), "wall_s": round(time.time() - t0)}
            print("suite:", meta["suite"])
    finally:
        sh("git checkout -- .", cwd=wt)
    # our checks against it: a scratch copy of /repo HEAD (+ uncommitted edits) with the patch applied,
    # so that /repo itself stays untouched while other work runs (equivalent to git -C /repo apply ... checkout)
    import tempfile
    scratch = tempfile.mkdtemp(prefix="vseed_")
    results = {}
    try:
        dst = os.path.join(scratch, "repo")
        shutil.copytree("/repo", dst, ignore=shutil.ignore_patterns(".git", "__pycache__", "docs", "vendor", "CHANGES"))
        head_patch = os.path.join(src, "patch_on_head.diff")  # the same change re-made on top of our fix commits
        use = head_patch if os.path.exists(head_patch) else patch
        rc, out = sh(f"patch -p1 -s -F0 -i {use}", cwd=dst)  # no fuzz: a hunk that lands somewhere else is another change
        if rc:
            print("patch does not apply on /repo HEAD (our fixes touched it?):", out[-300:])
            meta["applies_on_repo_head"] = False
        else:
            meta["applies_on_repo_head"] = True
            for p in [prop] + extra:
                env = dict(os.environ, VERIF_REPO=dst, VERIF_EVIDENCE_DIR=os.path.join(scratch, "ev"),
                           VERIF_REPLAY_DIR=f"/tmp/seed_rp/{prop}_{k}")
                t0 = time.time()
                r = subprocess.run(["/venv/bin/python", os.path.join(VERIF, "run_check.py"), p, "--tier", tier],
                                   cwd=VERIF, env=env, capture_output=True, text=True)
                lines = [l for l in r.stdout.splitlines() if l.startswith(("VIOLATION", "  key="))]
                results[p] = {"rc": r.returncode, "wall_s": round(time.time() - t0), "lines": lines[:6]}
                print(f"check {p}: rc={r.returncode} ({'DETECTED' if r.returncode == 1 else 'MISSED' if r.returncode == 0 else 'ERROR'})")
                for l in lines[:4]:
                    print("   ", l[:300])
                if r.returncode == 2:
                    print(r.stderr[-800:])
    finally:
        shutil.rmtree(scratch, ignore_errors=True)
    meta["our_checks"] = results
    notes = os.path.join(src, "notes.md")
    if os.path.exists(notes):
        meta["needs_to_manifest"] = open(notes).read()[:3000]
    dst = os.path.join(VERIF, "seeded", f"{prop}_{k}")
    os.makedirs(dst, exist_ok=True)
    shutil.copy(patch, os.path.join(dst, "patch.diff"))
    shutil.copy(demo, os.path.join(dst, "demo.py"))
    if os.path.exists(os.path.join(src, "patch_on_head.diff")):
        shutil.copy(os.path.join(src, "patch_on_head.diff"), os.path.join(dst, "patch_on_head.diff"))
        meta["note"] = "patch.diff applies to the pinned commit; patch_on_head.diff is the same change re-made on /repo HEAD (after our fix: commits)"
    prev_path = os.path.join(dst, "meta.json")
    if os.path.exists(prev_path):
        try:
            prev = json.load(open(prev_path))
            if "suite" in prev and "suite" not in meta:
                meta["suite"] = prev["suite"]  # confirmed by an earlier run of this tool
            hist = prev.get("our_checks_history", [])
            hist.append(prev.get("our_checks"))
            meta["our_checks_history"] = hist[-5:]
        except Exception:
            pass
    with open(os.path.join(dst, "meta.json"), "w") as f:
        json.dump(meta, f, indent=1)
    return 0


sys.exit(main())
