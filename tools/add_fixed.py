#!/usr/bin/env python3
"""Development helper: record a repaired defect (known_findings.json entry + DESIGN.md 6.3 row + count)."""
import json, re, sys
prop, commit, key, regress, line, row = sys.argv[1:7]
p = '/verif/known_findings.json'
d = json.load(open(p))
d['findings'].append({"property": prop, "key": key, "status": "fixed", "commit": commit,
                      "line": f"fixed: property={prop} {commit} {line}", "what": row, "regress": regress})
open(p, 'w').write(json.dumps(d, indent=1, ensure_ascii=False))
p = '/verif/DESIGN.md'
s = open(p).read()
rows = [m for m in re.finditer(r"^\| C\d\d \| [0-9a-f]{7} \|.*\n", s, re.M)]
last = rows[-1]
s = s[:last.end()] + f"| {prop} | {commit} | {row} |\n" + s[last.end():]
m = re.search(r"(\d+) genuine defects were repaired", s)
s = s.replace(m.group(0), f"{int(m.group(1)) + 1} genuine defects were repaired")
open(p, 'w').write(s)
print("recorded", prop, commit, "count", int(m.group(1)) + 1)
