#!/bin/sh
# Run every registered check at the given tier (default quick) against /repo and rewrite evidence/*.json.
# usage: tools/run_all.sh [quick|thorough]
cd "$(dirname "$0")/.." || exit 2
tier=${1:-quick}
rc_all=0
for c in C01 C02 C03 C04 C05 C06 C07 C08 C09 C10 C11 C12 C13 C14 C15 C16 C17 C18 C19 C20; do
  /venv/bin/python run_check.py $c --tier "$tier" > /tmp/run_all_$c.log 2>&1
  rc=$?
  echo "$c rc=$rc $(grep "^$c tier" /tmp/run_all_$c.log | tail -1)"
  [ $rc -ne 0 ] && rc_all=1
done
exit $rc_all
