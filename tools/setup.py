#!/venv/bin/python
"""setup_cmd: offline install of the fuzzing/PBT dependencies next to the repo's packages."""
import importlib.util, os, subprocess, sys

HERE = os.path.dirname(os.path.dirname(os.path.abspath(__file__)))
DEPS = os.path.join(HERE, ".deps")
os.makedirs(DEPS, exist_ok=True)
sys.path.append(DEPS)
need = [p for p in ("hypothesis", "atheris") if importlib.util.find_spec(p) is None]
if need:
    r = subprocess.run([sys.executable, "-m", "pip", "install", "-q", "--no-index", "--find-links",
                        "/opt/veriftools/wheels", "--target", DEPS] + need)
    if r.returncode:
        print("setup: pip failed for", need, "(atheris-based thorough campaigns will be skipped)")
import hypothesis
print("setup ok: hypothesis", hypothesis.__version__, "atheris", importlib.util.find_spec("atheris") is not None)
