#!/venv/bin/python
"""Sensitivity self-test (development tool, not a registered check).

usage: mutant_run.py <PROP> <mutant.json|patch.diff> [--tier quick] [--seed N]
A mutant json is {"file": "aiohttp/x.py", "old": "...", "new": "..."} or a list of
such edits; `old` must occur exactly once.  /repo is copied to a scratch dir
under /tmp, the edit applied, the check run with VERIF_REPO=<scratch>, and the
scratch dir removed.  Expected result: exit 1 (violation detected).
"""
import json, os, shutil, subprocess, sys, tempfile

def main():
    prop, mut = sys.argv[1], sys.argv[2]
    tier = "quick"; seed = "1"
    if "--tier" in sys.argv: tier = sys.argv[sys.argv.index("--tier") + 1]
    if "--seed" in sys.argv: seed = sys.argv[sys.argv.index("--seed") + 1]
    here = os.path.dirname(os.path.dirname(os.path.abspath(__file__)))
    scratch = tempfile.mkdtemp(prefix="vmut_")
    try:
        dst = os.path.join(scratch, "repo")
        shutil.copytree("/repo", dst, ignore=shutil.ignore_patterns(".git", "__pycache__", "docs", "vendor", "CHANGES"))
        if mut.endswith(".json"):
            edits = json.load(open(mut))
            if isinstance(edits, dict): edits = [edits]
            for e in edits:
                p = os.path.join(dst, e["file"])
                s = open(p).read()
                if s.count(e["old"]) != 1:
                    print(f"MUTANT-ERROR: pattern occurs {s.count(e['old'])}x in {e['file']}"); return 3
                open(p, "w").write(s.replace(e["old"], e["new"]))
        else:
            r = subprocess.run(["patch", "-p1", "-s", "-F0", "-d", dst, "-i", os.path.abspath(mut)])
            if r.returncode: print("MUTANT-ERROR: patch failed"); return 3
        env = dict(os.environ, VERIF_REPO=dst, VERIF_SEED=seed, VERIF_EVIDENCE_DIR=os.path.join(scratch, "ev"), VERIF_REPLAY_DIR=os.path.join(scratch, "rp"))
        r = subprocess.run([sys.executable, os.path.join(here, "run_check.py"), prop, "--tier", tier], env=env,
                           capture_output=True, text=True)
        lines = [l for l in r.stdout.splitlines() if l.startswith(("VIOLATION", "  key=", prop))]
        print("\n".join(lines[:12]))
        if r.returncode == 2: print(r.stderr[-1500:])
        print(f"MUTANT {os.path.basename(mut)} on {prop}: rc={r.returncode} -> {'DETECTED' if r.returncode == 1 else 'MISSED' if r.returncode == 0 else 'ERROR'}")
        return 0 if r.returncode == 1 else 1
    finally:
        shutil.rmtree(scratch, ignore_errors=True)

sys.exit(main())
