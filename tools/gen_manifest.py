#!/usr/bin/env python3
"""Regenerate MANIFEST.json from the table below (kept valid at all times)."""
import json
import os

HERE = os.path.dirname(os.path.dirname(os.path.abspath(__file__)))

# id -> (level category, technique, level text, level note, design section)
CHECKS = {
    "C08": (
        "exploration",
        "model-based testing: Hypothesis-generated and exhaustively enumerated producer/consumer operation sequences "
        "against a byte-string reference model",
        "Every generated operation sequence is applied to a real StreamReader and to an independent model; returned "
        "bytes, EOF reports, chunk-end flags and pause/resume calls are compared after every step. Exhaustive up to a "
        "length bound over a reduced alphabet, random beyond. Finds counterexamples; does not prove absence.",
        "Trusts the reference model in checks/c08_streams.py, the stub protocol's pause flag and asyncio FIFO "
        "scheduling on the deterministic loop; one consumer at a time, no consumer cancellation.",
        "5/C08",
    ),
    "C11": (
        "exploration",
        "round-trip + differential testing: Hypothesis-generated message histories, sender schedules and segmentations "
        "through WebSocketWriter -> WebSocketReader, cross-checked by an independent RFC 6455/7692 codec; exhaustive "
        "size x configuration grid",
        "Every generated history is sent through the real writer (1-3 sender tasks, harness-owned executor timing, "
        "optional cancellation), the wire bytes are decoded by the real reader under a generated segmentation and by an "
        "independent reference decoder; all three views must agree with what was sent. Finds counterexamples only.",
        "Trusts vlib/refws.py (zlib-based reference), the capturing transport, and harness-run executor jobs in place "
        "of threads; asyncio FIFO scheduling.",
        "5/C11",
    ),
    "C12": (
        "exploration",
        "differential testing against an independent RFC 6455/7692 reference decoder over grammar-generated frame "
        "streams with one violation class injected per stream and raw byte mutations; exhaustive 1- and 2-cut "
        "segmentation differential; retained-buffer bound sampled after every feed",
        "Each generated stream is decoded by the real reader in one read and compared with the reference decoder under "
        "every DON'T-CARE resolution; then re-fed under every single and double cut (exhaustive for streams <= 100 "
        "bytes) and must give the identical outcome; retained bytes are bounded after each feed.",
        "Trusts vlib/refws.py; DON'T-CARE classes listed in the module's ASSUMPTIONS are not decided; private buffer "
        "names are read for the memory bound.",
        "5/C12",
    ),
    "C16": (
        "exploration",
        "model-based testing: Hypothesis-generated histories (Set-Cookie, clock advance, clear, clear_domain, save/load) "
        "against an RFC 6265 reference store, every URL of a host x scheme x path lattice queried after every step",
        "After every step of a generated history filter_cookies() is compared, for every URL of the lattice, with what an "
        "independent RFC 6265 5.3/5.4 store would attach; a value sent where the store refuses is a leak, a name "
        "withheld where the store sends is an omission.",
        "Trusts the reference store in checks/c16_cookies.py and the virtual clock patched into aiohttp.cookiejar; one "
        "value per name is compared (filter_cookies returns a dict); no public-suffix list on either side.",
        "5/C16",
    ),
    "C03": (
        "exploration",
        "differential (metamorphic) testing over segmentations: grammar-generated, mutated and limit-edge HTTP streams "
        "fed to the pure-Python request/response parsers under ALL 1- and 2-cuts (short streams), byte-at-a-time, "
        "structural and random cuts, compared with the one-read outcome",
        "For every generated stream and limit configuration the outcome (messages, fields, body bytes, chunk boundaries, "
        "rejected flag, EOF result, limit flag for limit-edge streams) must be identical for every way of cutting the "
        "stream into reads; exhaustive over single and double cut points for streams up to 150 bytes.",
        "No external oracle is needed (the one-read outcome of the same parser is the reference); payload streams are "
        "drained by the harness, the pause/resume path is exercised with small read-buffer limits.",
        "5/C03",
    ),
    "C10": (
        "exploration",
        "fuzzing + boundary enumeration: Hypothesis structure-aware mutation (and, thorough, Atheris coverage-guided "
        "campaigns) of HTTP streams with the oracle 'only HttpProcessingError may leave feed_data/feed_eof and every "
        "delivered request is usable'; exhaustive limit-1/limit/limit+1 grid over every syntactic position x limit "
        "configuration x every single cut; deterministic line-event work counter at n, 2n, 4n",
        "Totality is searched with generated hostile inputs; limit enforcement is decided on a complete grid of positions, "
        "configurations and cut points with a known expected verdict; work growth is measured without a clock.",
        "Trusts the stated reading of the limits (line without CRLF, whole header line = field); Python line events "
        "stand in for work; the C parser back end is out of reach.",
        "5/C10",
    ),
    "C01": (
        "exploration",
        "differential testing against an independent strict RFC 9112 reader: grammar-generated request pipelines, every "
        "named smuggling mutation class at generated positions, raw byte mutations; three-valued oracle "
        "(accept-with-this-reading / must-reject / don't-care)",
        "For each generated stream aiohttp's request parser must deliver exactly the requests the strict reader yields "
        "(line, ordered fields, body bytes, count) and must reject where the reader finds ambiguous or malformed "
        "framing; a late-completion probe separates 'not yet decided' from 'accepted'.",
        "Trusts vlib/refhttp.strict_read; the DON'T-CARE classes listed in the module are not decided; the C/llhttp back "
        "end cannot be built here.",
        "5/C01",
    ),
    "C05": (
        "exploration",
        "history-invariant testing on an in-memory server connection under a deterministic virtual-time loop: "
        "Hypothesis-generated pipelines x malformed/hostile elements x segmentation and burst plans x handler "
        "behaviours x peer disconnect points; independent response framer as oracle",
        "Each generated connection history is run against a real RequestHandler on an in-memory transport; the bytes the "
        "server wrote are split by an independent framer and checked for one well-formed response per request in "
        "order, a 4xx+close for unparsable input, no stuck-open state, no exception in the loop and a bounded queue.",
        "Trusts vlib/memnet.py (transport model), vlib/detloop.py (virtual time, asyncio FIFO order), the response framer "
        "and strict reader in vlib/refhttp.py.",
        "5/C05",
    ),
    "C02": (
        "exploration",
        "round-trip property testing between two real aiohttp endpoints (ClientSession <-> web.Application) on in-memory "
        "transports under a deterministic virtual-time loop: Hypothesis-generated request x response x segmentation "
        "product, raw header comparison, keep-alive agreement and follow-up reuse",
        "Each generated exchange must deliver to the handler exactly what the client issued and to the caller exactly "
        "what the handler returned (empty-body rules applied), for independent segmentations of both directions; at "
        "quiescence client and server must agree on whether the connection stays open and a follow-up request must "
        "reuse it iff both kept it.",
        "Trusts vlib/memnet.py and vlib/detloop.py; FileResponse goes through the AIOHTTP_NOSENDFILE fallback; TLS and "
        "kernel sendfile are out of reach.",
        "5/C02",
    ),
    "C06": (
        "exploration",
        "model-based history testing: Hypothesis-generated request histories on one ClientSession against scripted "
        "misbehaving in-memory peers (surplus bytes, unsolicited responses while idle, truncation, EOF framing, close) "
        "with exchange markers; invariant over the history",
        "Every response handed to the caller must carry the marker of its own request in headers and body, a connection "
        "the harness knows to be unusable must never receive another request, and a reused connection must have been "
        "opened for the same independently computed endpoint identity.",
        "Trusts vlib/memnet.py and the peer scripts; injected bytes are made to arrive before the next request is issued "
        "(bytes still in flight at hand-off cannot be told from an answer by any client); histories are sequential.",
        "5/C06",
    ),
    "C07": (
        "exploration",
        "systematic schedule enumeration by re-execution + Hypothesis-sampled schedules: external events (start, connect "
        "ok/fail, release/close, cancel, connector.close) delivered with full / partial (k loop iterations) / no settling "
        "against a harness-side counting model on the deterministic loop",
        "All event orders up to a length bound for small (N, H, limit, limit_per_host) configurations - including one "
        "event per schedule landing between two callbacks of the same cascade - and sampled longer ones are run against "
        "a real BaseConnector; limits, lost wake-ups, leaked slots and close() behaviour are checked after every event.",
        "Trusts the harness counting model and vlib/detloop.py; interleavings are asyncio's FIFO order with generated "
        "external-event placement, not arbitrary callback permutations.",
        "5/C07",
    ),
    "C09": (
        "exploration",
        "differential testing against one-shot reference decoders (zlib, brotli, zstd) through the full receive stacks "
        "(ResponseHandler / RequestHandler on in-memory transports that honour pause) under generated payload shapes, "
        "codings, framings, corruptions, segmentations, consumer schedules and buffer limits; resident decoded bytes "
        "sampled after every loop iteration; stalls detected as quiescence of the virtual-time loop",
        "Bytes read must equal the reference decode, streams the reference rejects must surface as errors (or deliver "
        "only a correct prefix where the suite pins tolerance), the consumer must always reach end-of-body, resident "
        "decoded data must stay within 4x the effective limit plus one wire segment, and server read() must respect "
        "client_max_size.",
        "Trusts the reference decoders and vlib/memnet.py; brotli library overshoot is allowed for; bounded liveness only "
        "(quiescence of a deterministic loop).",
        "5/C09",
    ),
    "C04": (
        "exploration",
        "exhaustive code-point enumeration + property-based sequences: every Unicode code point in every header/start-line "
        "position of the shared serialiser; special code points and random strings through the public client/server/"
        "multipart/FormData APIs onto capturing transports with an independent CRLF splitter; Hypothesis-generated "
        "StreamWriter call sequences decoded by an independent de-chunker/inflater; Payload.size vs bytes written",
        "A refused string must leave zero bytes on the wire; an accepted one must produce exactly the supplied lines. "
        "Emitted bodies must agree with their framing (one chunk terminator, declared length == bytes, size == bytes).",
        "Trusts the independent splitter/de-chunker in the check; the C serialiser is out of reach; multipart writers are "
        "driven the way real callers do (size consulted before write).",
        "5/C04",
    ),
    "C14": (
        "exploration",
        "model-based differential testing: generated route tables (all registration orders for small tables) x enumerated "
        "request paths/methods/hosts resolved by the real UrlDispatcher and by an independent linear implementation of "
        "the documented lookup rule; url_for/resolve round trip; normalising redirects driven through a real server",
        "For every table and every request the chosen handler, match_info, 404/405 and allowed-method set must equal those "
        "of the documented rule computed from the original template text; url_for output must resolve back; redirect "
        "targets of normalize_path_middleware must stay on-site under a strict and a browser-like reading.",
        "Trusts the reference rule in the check (domain precedence is set-valued); templates are decoded text; static and "
        "sub-application prefixes that need quoting are not generated.",
        "5/C14",
    ),
    "C15": (
        "exploration",
        "grammar-based fuzzing of request targets against a marker-tagged file tree (confinement oracle = real path of the "
        "file whose marker came back) + exhaustive enumeration of the small integer range space (start, end, suffix in "
        "0..size+2, all sizes, conditional headers) against RFC 9110 range arithmetic, through a real server connection",
        "Every generated target is sent as raw bytes to a real static route; any 200/206 must name a file the "
        "configuration allows. Every range spec of the grid must yield the RFC verdict with mutually consistent status, "
        "Content-Range, Content-Length and body bytes.",
        "Trusts the marker scheme, the RFC model in the check and the response framer; POSIX only; stat/open races are out "
        "of reach.",
        "5/C15",
    ),
    "C19": (
        "exploration",
        "Hypothesis round-trip testing of the multipart codec (generated part lists, encodings, nesting, boundaries, "
        "segmentations and read APIs) against a reference splitter and stdlib decoders; FormData -> request.post() round "
        "trip; mutation fuzzing of valid bodies under a stream-operation budget for termination; exhaustive small grid of "
        "limit scenarios fed incrementally",
        "A body written by MultipartWriter/FormData is read back part for part with identical headers, names and content "
        "under every generated segmentation and read API; writer.size and part Content-Length equal the bytes written; "
        "mutated bodies always end in parts or an error within the operation budget; header/size limits fire while only "
        "limit + a few chunks have been fed or allocated.",
        "Trusts the 20-line reference splitter, stdlib base64/quopri/zlib, and the virtual-loop feeding discipline; "
        "domain excludes content containing the delimiter, leading '/' or '\\' in names, lines starting with the "
        "boundary for the line API.",
        "5/C19",
    ),
    "C13": (
        "exploration",
        "exhaustive enumeration of event schedules (app receive/close/send from several tasks, peer frames, EOF/reset, "
        "cancellation, virtual-time advances) up to a bounded length over a configuration grid, plus Hypothesis-sampled "
        "longer schedules with partial loop-step gaps, on a deterministic virtual-time loop with in-memory transports and a "
        "scripted RFC 6455 peer; invariants over the history",
        "For every schedule explored: close() returns within the close timeout; no receive() stays blocked once the "
        "session is closed or the connection lost; at most one Close frame and no data frame after it on the wire; "
        "ws.closed implies a closing transport; close_code is the peer's code after a clean handshake and 1006 when no "
        "Close frame was received.",
        "Interleavings are at loop-iteration granularity of the deterministic loop; executor jobs are modelled as finishing "
        "k iterations later; three-valued close-code oracle; write stalls not explored.",
        "5/C13",
    ),
    "C17": (
        "exploration",
        "exhaustive enumeration of redirect chains (origins x statuses x secret kind, bounded length) plus Hypothesis-sampled "
        "chains over all Location forms, methods, body kinds, secrets and max_redirects, run through a real ClientSession "
        "against logging in-memory origin servers; an information-flow model over the servers' logs is the oracle",
        "In every chain explored: caller secrets and URL credentials reach only the origin they were given for (no "
        "resurrection after A->B->A), jar cookies are exactly those of each hop's host, method/body follow the documented "
        "table, at most max_redirects requests are made, non-HTTP/unparsable targets raise without a further request, and "
        "history lists the released intermediate responses in order with no connection left acquired.",
        "Trusts the origin servers' request parser and the flow model in the check; TLS and real proxies are not simulated.",
        "5/C17",
    ),
    "C20": (
        "exploration",
        "fault enumeration: every subset (bounded size) of failing lifecycle steps over a grid of application shapes (contexts, "
        "receivers, flat and nested sub-applications) through both entry points, judged by a stack model over an event log; "
        "plus Hypothesis-generated shutdown placements (connection phases x shutdown instant x late requests) against a real "
        "AppRunner server on in-memory transports under virtual time",
        "For every fault subset explored the teardown of a context ran exactly once iff its setup completed, in reverse order "
        "per application, through AppRunner and _run_app; for every shutdown placement idle connections close at once, "
        "handlers that finish within the timeout complete with their response delivered, all handlers end by twice the "
        "timeout, late requests reach no handler, and all transports are closed when cleanup() returns.",
        "Real sockets, POSIX signals and run_app's loop management are replaced (no-op site, cancellation of _run_app); "
        "cross-application teardown order is only recorded.",
        "5/C20",
    ),
    "C18": (
        "exploration",
        "fault enumeration (one stall point per case: pool wait, DNS, socket connect, request write, every byte offset of the "
        "response, with progressive delivery) x timeout kind x value, and schedule enumeration of the cancellation point "
        "(cancel after k loop iterations for every k), plus Hypothesis-sampled combinations, on a real TCPConnector with "
        "scripted resolver and in-memory sockets under virtual time; residue invariants over connector, transports and tasks",
        "Every explored stall is reported as asyncio.TimeoutError within the configured bound (+1 s ceiling above 5 s) of the "
        "last progress and not earlier than the smallest configured bound; after a timeout or cancellation the connection "
        "is closed, no slot or waiter remains, no task of the request survives, bystanders sharing the pool queue or the DNS "
        "lookup complete normally and a follow-up request succeeds.",
        "Socket-level calls are replaced by in-memory transports (no kernel timing); proxies and TLS handshakes are not "
        "simulated; which timeout must cover which phase is stated in the check's assumptions.",
        "5/C18",
    ),
}

REASON_PENDING = "check not built yet in this round (design in DESIGN.md section 5); not claimed until it runs quietly on the unchanged tree"


def main() -> None:
    props = [json.loads(l)["id"] for l in open(os.path.join(HERE, "properties.jsonl")) if l.strip()]
    checks = []
    for pid in props:
        if pid not in CHECKS:
            continue
        cat, tech, text, note, ref = CHECKS[pid]
        checks.append(
            {
                "property_id": pid,
                "quick_cmd": f"/venv/bin/python run_check.py {pid} --tier quick",
                "thorough_cmd": f"/venv/bin/python run_check.py {pid} --tier thorough",
                "evidence_file": f"evidence/{pid}.json",
                "replay_cmd_template": f"/venv/bin/python run_check.py {pid} --replay {{path}}",
                "engine": "pbt",
                "level_claimed": {"category": cat, "text": text, "design_ref": f"DESIGN.md section {ref}"},
                "level_note": note,
                "technique": tech,
            }
        )
    na_path = os.path.join(HERE, "tools", "not_applicable.json")
    na_reasons = json.load(open(na_path)) if os.path.exists(na_path) else {}
    man = {
        "version": 1,
        "setup_cmd": "/venv/bin/python tools/setup.py",
        "hooks": {
            "guard": "AIOHTTP_VERIF",
            "enable": "no source hooks exist: checks import /repo's working tree directly (pure-Python build, "
            "AIOHTTP_NO_EXTENSIONS=1) and observe through public API and harness-owned transports/loop",
            "baseline_off_cmd": "cd /repo && /venv/bin/python -m pytest -ra -q -p no:cacheprovider --timeout=900 "
            "--continue-on-collection-errors",
            "source_commits": [],
            "add_only": True,
        },
        "engines": [
            {
                "name": "pbt",
                "path": "run_check.py",
                "serves_properties": sorted(CHECKS),
                "kind_free_text": "property-based testing and fuzzing: Hypothesis (plain + operation-sequence/model-based), "
                "exhaustive small-scope enumeration, Atheris coverage-guided fuzzing; deterministic virtual-time asyncio "
                "loop and in-memory transports; explicit reference oracles",
            }
        ],
        "checks": checks,
        "notes": "All commands run with cwd=/verif and honour VERIF_SEED / VERIF_TIER / VERIF_REPO. exit 2 = harness error.",
        "not_applicable": [
            {"property_id": pid, "reason": na_reasons.get(pid, REASON_PENDING)} for pid in props if pid not in CHECKS
        ],
    }
    with open(os.path.join(HERE, "MANIFEST.json"), "w") as f:
        json.dump(man, f, indent=1)
        f.write("\n")
    try:
        import jsonschema

        jsonschema.validate(man, json.load(open("/root/.vp/MANIFEST.schema.json")))
        print("MANIFEST.json valid;", len(checks), "checks,", len(man["not_applicable"]), "not claimed")
    except ImportError:
        print("written (jsonschema not available to validate)")


if __name__ == "__main__":
    main()
