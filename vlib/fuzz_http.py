#!/venv/bin/python
"""Atheris target: (parser kind, limits, segmentation, bytes) -> drive(); any exception other than
HttpProcessingError escaping feed_data/feed_eof is written as a replayable case and crashes the run."""
import os
import sys

# third-party fuzzing deps live in /verif/.deps; appended (not prepended) so that the venv's own packages win
_DEPS = os.path.join(os.path.dirname(os.path.dirname(os.path.abspath(__file__))), ".deps")
if _DEPS not in sys.path:
    sys.path.append(_DEPS)

import atheris  # noqa: E402

os.environ.setdefault("AIOHTTP_NO_EXTENSIONS", "1")
with atheris.instrument_imports(include=["aiohttp.http_parser", "aiohttp.streams"]):
    import aiohttp  # noqa: F401
    from aiohttp import http_parser  # noqa: F401

from vlib import hyp, jsonx  # noqa: E402
from vlib.parsedrive import drive  # noqa: E402

LIMITS = [{}, {"max_line_size": 40, "max_field_size": 40, "max_headers": 6}, {"max_line_size": 30, "max_field_size": 60, "max_headers": 8},
          {"max_line_size": 60, "max_field_size": 30, "max_headers": 8}]
KINDS = ["request", "response-lax", "response-strict"]
SEEN = set()


def one(data: bytes) -> None:
    if len(data) < 4:
        return
    kind = KINDS[data[0] % 3]
    limits = LIMITS[data[1] % 4]
    stream = data[4:]
    n = len(stream)
    cuts = tuple(sorted({c % n for c in (data[2], data[2] + data[3] + 1) if n > 1} - {0})) if data[2] or data[3] else ()
    pk = "request" if kind == "request" else "response"
    for cs in ((), cuts) if cuts else ((),):
        out = drive(pk, stream, cs, limits=limits, strict_response=(kind == "response-strict"), read_limit=2 ** 16)
        e = out.other_exc
        if e is not None:
            key = hyp.exc_key(e, "non-http-exception")
            case = {"kind": kind, "stream": stream, "limits": limits, "cuts": [list(cs)], "cls": "atheris"}
            d = os.environ.get("FUZZ_CRASH_DIR")
            if d and key not in SEEN:
                SEEN.add(key)
                safe = "".join(c if c.isalnum() else "_" for c in key)[:60]
                with open(os.path.join(d, safe + ".json"), "w") as f:
                    f.write(jsonx.dumps({"key": key, "msg": f"{type(e).__name__}: {e!r}"[:300], "case": case}))
            # keep fuzzing behind this root cause (counted by key): do not raise


def main() -> None:
    atheris.Setup(sys.argv, one)
    atheris.Fuzz()


if __name__ == "__main__":
    main()
