#!/venv/bin/python
"""Atheris target for C19: (api, content type, segmentation, bytes) -> walk the multipart reader under an operation
budget; a walk that neither finishes nor raises within the budget is written as a replayable case."""
import logging
import os
import sys

# third-party fuzzing deps live in /verif/.deps; appended (not prepended) so that the venv's own packages win
_DEPS = os.path.join(os.path.dirname(os.path.dirname(os.path.abspath(__file__))), ".deps")
if _DEPS not in sys.path:
    sys.path.append(_DEPS)

import atheris  # noqa: E402

os.environ.setdefault("AIOHTTP_NO_EXTENSIONS", "1")
with atheris.instrument_imports(include=["aiohttp.multipart"]):
    import aiohttp  # noqa: F401
    from aiohttp import multipart  # noqa: F401

logging.disable(logging.CRITICAL)

from checks import c19_multipart as c19  # noqa: E402
from vlib import jsonx  # noqa: E402

CTYPES = ["multipart/mixed; boundary=b", "multipart/form-data; boundary=b", "multipart/mixed; boundary=xx", 'multipart/related; boundary="q q"',
          "multipart/mixed; boundary=--", "multipart/form-data; boundary=BOUND"]
SEEN = set()


def one(data: bytes) -> None:
    if len(data) < 5:
        return
    api = c19.WALK_APIS[data[0] % len(c19.WALK_APIS)]
    ctype = CTYPES[data[1] % len(CTYPES)]
    plan = [0] if data[2] == 0 else [1 + data[2] % 40, 1 + data[3] % 9]
    sizes = [data[3] % 70, c19.CHUNK][: 1 + data[2] % 2]
    body = data[4:]
    verdict, stats = c19.run_walk(body, ctype, api, sizes, plan)
    if verdict == "hang" or verdict.startswith("budget"):
        key = "walk-hangs-after-eof" if verdict == "hang" else "walk-does-not-terminate"
        d = os.environ.get("FUZZ_CRASH_DIR")
        if d and key not in SEEN:
            SEEN.add(key)
            with open(os.path.join(d, key + ".json"), "w") as f:
                f.write(jsonx.dumps({"key": key, "msg": f"{verdict}: api={api} ctype={ctype} plan={plan} body={body[:200]!r}",
                                     "case": {"raw": body, "ctype": ctype, "api": api, "sizes": sizes, "plan": plan}}))


def main() -> None:
    atheris.Setup(sys.argv, one)
    atheris.Fuzz()


if __name__ == "__main__":
    main()
