"""Deterministic virtual-time asyncio loop.

DetLoop is a SelectorEventLoop whose selector never touches the OS:
select(t) advances a virtual clock by t and reports no I/O; select(None)
(nothing scheduled at all) raises Quiescent - "nothing can ever happen again",
which is how blocked-forever is observed in bounded histories.  time() is the
virtual clock, run_in_executor runs inline, the exception handler records every
context.  asyncio's FIFO order of ready callbacks is kept.
"""
from __future__ import annotations

import asyncio
import selectors
from typing import Any


from vlib.runner import Violation


class Livelock(Violation):
    """The code under test keeps the loop busy for ever without time passing: a violation, not a harness error."""

    def __init__(self, n: int) -> None:
        super().__init__("livelock/loop-never-idle", f"the event loop did not become idle within {n} iterations at one instant of virtual time (busy loop in the code under test)")


class Quiescent(BaseException):
    pass


class _FakeSelector(selectors.BaseSelector):
    def __init__(self, loop_ref: list) -> None:
        self._loop_ref = loop_ref
        self._keys: dict[Any, selectors.SelectorKey] = {}

    def register(self, fileobj, events, data=None):
        key = selectors.SelectorKey(fileobj, fileobj if isinstance(fileobj, int) else fileobj.fileno(), events, data)
        self._keys[fileobj] = key
        return key

    def unregister(self, fileobj):
        return self._keys.pop(fileobj)

    def modify(self, fileobj, events, data=None):
        self.unregister(fileobj)
        return self.register(fileobj, events, data)

    def select(self, timeout=None):
        loop = self._loop_ref[0]
        if timeout is None:
            raise Quiescent()
        if timeout > 0:
            loop._vtime += timeout
        return []

    def close(self):
        self._keys.clear()

    def get_map(self):
        return self._keys

    def get_key(self, fileobj):
        return self._keys[fileobj]


class DetLoop(asyncio.SelectorEventLoop):
    def __init__(self) -> None:
        self._vtime = 0.0
        ref: list = [None]
        super().__init__(_FakeSelector(ref))
        ref[0] = self
        self.exc_contexts: list[dict] = []
        self.set_exception_handler(self._record_exc)
        self._clock_resolution = 1e-9

    @staticmethod
    def _record_exc(loop, context):
        loop.exc_contexts.append(context)

    def time(self) -> float:
        return self._vtime

    def run_in_executor(self, executor, func, *args):
        fut = self.create_future()
        try:
            fut.set_result(func(*args))
        except BaseException as e:  # noqa: BLE001
            fut.set_exception(e)
        return fut

    # -- driving ----------------------------------------------------------
    def step(self) -> None:
        """One loop iteration (runs what is ready now, incl. due timers)."""
        self.call_soon(self.stop)
        self.run_forever()

    def has_ready(self) -> bool:
        return bool(self._ready)

    max_iters = 3000000  # per call of run_until_idle; checks whose cases are small lower it (loop.max_iters = ...)

    def run_until_idle(self, max_iters: int | None = None) -> int:
        """Iterate until no callback is ready, without letting virtual time move."""
        n = 0
        while True:
            self.step()
            n += 1
            if not self._ready:
                return n
            if n >= (max_iters or self.max_iters):
                raise Livelock(n)

    def next_timer(self) -> float | None:
        return min((h._when for h in self._scheduled if not h._cancelled), default=None)

    def advance(self, dt: float) -> None:
        """Run everything that happens within the next dt seconds of virtual time."""
        end = self._vtime + dt
        self.run_until_idle()
        while True:
            nt = self.next_timer()
            if nt is None or nt > end:
                break
            if nt > self._vtime:
                self._vtime = nt
            self.run_until_idle()
        self._vtime = max(self._vtime, end)
        self.run_until_idle()

    def run_to_quiescence(self, max_time: float = 1e6, max_rounds: int = 100000) -> bool:
        """Run until nothing is ready and no timer is pending (True) or until
        virtual time max_time is passed (False)."""
        limit = self._vtime + max_time
        for _ in range(max_rounds):
            self.run_until_idle()
            nt = self.next_timer()
            if nt is None:
                return True
            if nt > limit:
                return False
            if nt > self._vtime:
                self._vtime = nt
        raise RuntimeError("run_to_quiescence: too many rounds")

    def drive(self, coro, max_time: float = 1e6):
        """Run a coroutine to completion under virtual time; raises Quiescent if
        it can never complete."""
        task = self.create_task(coro)
        limit = self._vtime + max_time
        while not task.done():
            self.run_until_idle()
            if task.done():
                break
            nt = self.next_timer()
            if nt is None:
                task.cancel()
                self.run_until_idle()
                raise Quiescent("task blocked forever")
            if nt > limit:
                task.cancel()
                self.run_until_idle()
                raise Quiescent("virtual time budget exceeded")
            if nt > self._vtime:
                self._vtime = nt
        return task.result()

    def shutdown(self) -> None:
        """Cancel leftovers and close."""
        try:
            tasks = [t for t in asyncio.all_tasks(self) if not t.done()]
            for t in tasks:
                t.cancel()
            for _ in range(50):
                self.run_until_idle()
                if all(t.done() for t in tasks):
                    break
        finally:
            try:
                self.close()
            except Exception:
                pass


def new_loop() -> DetLoop:
    loop = DetLoop()
    asyncio.set_event_loop(loop)
    return loop
