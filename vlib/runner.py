"""Tiering, sharding, evidence, replay files and known-findings matching.

A check module (checks/cNN_*.py) exposes

    PROPERTY = "C08"
    LEVEL = "exploration"              # evidence level
    RULE = "how cases are generated and what makes one non-trivial"
    ASSUMPTIONS = [...]
    def units(tier, seed) -> list[Unit]     # independent pieces of work
    def replay(rec, case) -> None           # re-run one saved case, rec.fail() on violation

Every unit function has the signature fn(rec, **kwargs) and reports through
the Rec it is given.  Units run in a fork pool (one fresh process per unit).
"""
from __future__ import annotations

import hashlib
import json
import multiprocessing as mp
import os
import sys
import time
import traceback
from collections import Counter
from dataclasses import dataclass, field
from typing import Any, Callable

from . import jsonx

VERIF = os.path.dirname(os.path.dirname(os.path.abspath(__file__)))
MAX_SAMPLES = 8


class Violation(Exception):
    """Raised by an oracle: the property does not hold for this case."""

    def __init__(self, key: str, msg: str):
        super().__init__(f"{key}: {msg}")
        self.key = key
        self.msg = msg


class HarnessError(Exception):
    """The machinery itself is broken (never reported as a violation)."""


@dataclass
class Unit:
    name: str
    fn: Callable[..., None]
    kwargs: dict = field(default_factory=dict)


def load_known(prop: str) -> dict[str, dict]:
    path = os.path.join(VERIF, "known_findings.json")
    if not os.path.exists(path):
        return {}
    with open(path) as f:
        data = json.load(f)
    return {
        e["key"]: e
        for e in data.get("findings", [])
        if e.get("property") == prop and e.get("status") == "open"
    }


class Rec:
    """Per-unit recorder; merged by the parent."""

    def __init__(self, prop: str, unit: str, tier: str, seed: int, deadline: float):
        self.prop = prop
        self.unit = unit
        self.tier = tier
        self.seed = seed
        self.deadline = deadline
        self.evaluations = 0
        self.nontrivial: set[bytes] = set()
        self.labels: Counter[str] = Counter()
        self.samples: list[Any] = []
        self.nt_samples: list[Any] = []
        self.failures: list[dict] = []
        self.known_hits: Counter[str] = Counter()
        self.known = load_known(prop)
        self.muted: set[str] = set()
        self.inconclusive = False
        self.exhaustive: bool | None = None
        self.extra: dict[str, Any] = {}

    # -- counting ---------------------------------------------------------
    def case(self, case: Any, nontrivial: bool, labels=(), n: int = 1, ident: Any = None) -> None:
        """Record one executed case.  `ident` (default: the case) is hashed
        for the distinct-non-trivial count."""
        self.evaluations += n
        for lab in labels:
            self.labels[lab] += 1
        if nontrivial:
            h = hashlib.blake2b(
                jsonx.canon(case if ident is None else ident).encode(), digest_size=8
            ).digest()
            if h not in self.nontrivial:
                self.nontrivial.add(h)
                if len(self.nt_samples) < MAX_SAMPLES and (
                    len(self.nontrivial) in (1, 2, 3, 10, 50, 200, 1000, 5000)
                ):
                    self.nt_samples.append(jsonx.brief(case))
        elif len(self.samples) < 2:
            self.samples.append(jsonx.brief(case))

    def count(self, n: int = 1) -> None:
        self.evaluations += n

    def label(self, lab: str, n: int = 1) -> None:
        self.labels[lab] += n

    def expired(self) -> bool:
        if time.monotonic() > self.deadline:
            self.inconclusive = True
            return True
        return False

    # -- failures ---------------------------------------------------------
    def is_known(self, key: str) -> bool:
        return key in self.known

    def fail(self, key: str, msg: str, case: Any) -> None:
        """Record a violation (known findings are tallied, not failed)."""
        if key in self.known:
            self.known_hits[key] += 1
            return
        for f in self.failures:
            if f["key"] == key:
                f["count"] += 1
                # keep the smallest case as the replay file
                if len(jsonx.canon(case)) < len(jsonx.canon(f["case"])):
                    f["case"], f["msg"] = case, msg
                return
        self.failures.append({"key": key, "msg": msg, "case": case, "count": 1, "unit": self.unit})

    def result(self) -> dict:
        return {
            "unit": self.unit,
            "evaluations": self.evaluations,
            "nontrivial": self.nontrivial,
            "labels": self.labels,
            "samples": self.samples,
            "nt_samples": self.nt_samples,
            "failures": self.failures,
            "known_hits": self.known_hits,
            "inconclusive": self.inconclusive,
            "exhaustive": self.exhaustive,
            "extra": self.extra,
        }


def _run_unit(args) -> dict:
    modname, idx, tier, seed, deadline = args
    import importlib

    t0 = time.monotonic()
    mod = importlib.import_module(modname)
    unit = mod.units(tier, seed)[idx]
    rec = Rec(mod.PROPERTY, unit.name, tier, seed, deadline)
    try:
        unit.fn(rec, **unit.kwargs)
    except Violation as v:  # an oracle raised outside a helper that records
        rec.fail(v.key, v.msg, {"unit": unit.name, "note": "raised outside recorder"})
    except BaseException:
        res = rec.result()
        res["harness_error"] = traceback.format_exc()
        res["wall"] = time.monotonic() - t0
        return res
    res = rec.result()
    res["wall"] = time.monotonic() - t0
    return res


def run_check(mod, tier: str, seed: int, jobs: int = 16) -> int:
    prop = mod.PROPERTY
    t0 = time.monotonic()
    cap = float(os.environ.get("VERIF_CAP_S", "0")) or (
        getattr(mod, "CAP_QUICK", 420.0) if tier == "quick" else getattr(mod, "CAP_THOROUGH", 3 * 3600.0)
    )
    deadline = t0 + cap
    units = mod.units(tier, seed)
    known = load_known(prop)

    results: list[dict] = []
    # regress tier: committed shrunk cases first, in-process
    regdir = os.path.join(VERIF, "regress", prop)
    reg_n = 0
    if os.path.isdir(regdir) and hasattr(mod, "replay"):
        rec = Rec(prop, "regress", tier, seed, deadline)
        for fn in sorted(os.listdir(regdir)):
            if not fn.endswith(".json"):
                continue
            with open(os.path.join(regdir, fn)) as f:
                doc = jsonx.loads(f.read())
            try:
                mod.replay(rec, doc["case"])
            except Violation as v:
                rec.fail(v.key, v.msg, doc["case"])
            reg_n += 1
        results.append(rec.result() | {"wall": 0.0})

    args = [(mod.__name__, i, tier, seed, deadline) for i in range(len(units))]
    if jobs <= 1 or len(units) <= 1:
        for a in args:
            results.append(_run_unit(a))
    else:
        ctx = mp.get_context("fork")
        with ctx.Pool(min(jobs, len(units)), maxtasksperchild=1) as pool:
            it = pool.imap_unordered(_run_unit, args, chunksize=1)
            seen_units: set[str] = set()
            for _ in range(len(args)):
                # watchdog: units poll the budget themselves; one that does not come back a while after the budget is spent
                # (a slow machine, a worker that hangs) is abandoned and the run is reported as inconclusive - never as a violation
                try:
                    r = it.next(timeout=max(5.0, deadline + 60.0 - time.monotonic()))
                except mp.TimeoutError:
                    missing = [u.name for u in units if u.name not in seen_units]
                    print(f"WATCHDOG property={prop}: {len(missing)} unit(s) did not finish within the budget ({cap:.0f} s + 60 s), abandoned: {missing[:8]}", file=sys.stderr)
                    rec = Rec(prop, "<watchdog>", tier, seed, deadline)
                    rec.inconclusive = True
                    rec.exhaustive = False
                    results.append(rec.result() | {"wall": 0.0})
                    pool.terminate()
                    break
                seen_units.add(r["unit"])
                results.append(r)

    # merge
    evaluations = 0
    nontrivial: set[bytes] = set()
    labels: Counter[str] = Counter()
    samples: list[Any] = []
    failures: dict[str, dict] = {}
    known_hits: Counter[str] = Counter()
    harness_errors = []
    inconclusive = False
    exhaustive = None
    extra: dict[str, Any] = {}
    unit_walls = {}
    for r in sorted(results, key=lambda r: r["unit"]):
        evaluations += r["evaluations"]
        nontrivial |= r["nontrivial"]
        labels.update(r["labels"])
        for s in r["nt_samples"] + r["samples"]:
            if len(samples) < MAX_SAMPLES * 2:
                samples.append(s)
        for f in r["failures"]:
            cur = failures.get(f["key"])
            if cur is None or len(jsonx.canon(f["case"])) < len(jsonx.canon(cur["case"])):
                if cur is not None:
                    f["count"] += cur["count"]
                failures[f["key"]] = f
            else:
                cur["count"] += f["count"]
        known_hits.update(r["known_hits"])
        inconclusive = inconclusive or r["inconclusive"]
        if r.get("exhaustive") is not None:
            exhaustive = r["exhaustive"] if exhaustive is None else (exhaustive and r["exhaustive"])
        for k, v in r["extra"].items():
            if isinstance(v, (int, float)) and isinstance(extra.get(k, 0), (int, float)):
                extra[k] = extra.get(k, 0) + v
            else:
                extra.setdefault(k, v)
        if "harness_error" in r:
            harness_errors.append((r["unit"], r["harness_error"]))
        unit_walls[r["unit"]] = round(r.get("wall", 0.0), 2)

    # report
    rc = 0
    for key in sorted(known):
        e = known[key]
        print(f"KNOWN-FINDING: property={prop} {key}: {e.get('what', '')} (hits this run: {known_hits.get(key, 0)})")
    viol_n = 0
    for key, f in sorted(failures.items()):
        viol_n += 1
        rdir = os.path.join(os.environ.get("VERIF_REPLAY_DIR") or os.path.join(VERIF, "replay"), prop)
        os.makedirs(rdir, exist_ok=True)
        safe = "".join(c if c.isalnum() or c in "-_." else "_" for c in key)[:80]
        path = os.path.join(rdir, f"{safe}.json")
        with open(path, "w") as fh:
            fh.write(jsonx.dumps({"property": prop, "key": key, "msg": f["msg"], "unit": f["unit"], "case": f["case"]}, indent=1))
        print(f"VIOLATION property={prop} replay={path}")
        print(f"  key={key} count={f['count']} unit={f['unit']}: {f['msg'][:600]}")
        rc = 1
    if harness_errors:
        for u, tb in harness_errors:
            print(f"HARNESS-ERROR property={prop} unit={u}\n{tb}", file=sys.stderr)
        if rc == 0:
            rc = 2

    wall = time.monotonic() - t0
    coverage: dict[str, Any] = {
        "evaluations": evaluations,
        "distinct_nontrivial": len(nontrivial),
        "rule": mod.RULE,
        "samples": samples or ["<no cases>"],
        "classes": dict(sorted(labels.items())),
        "known_finding_hits": dict(known_hits),
        "regress_cases_replayed": reg_n,
        "units": unit_walls,
        "inconclusive_budget_hit": inconclusive,
    }
    if exhaustive is not None:
        coverage["exhaustive"] = bool(exhaustive)
    coverage.update(extra)
    ev = {
        "property_id": prop,
        "tier": tier,
        "seed": seed,
        "level": mod.LEVEL,
        "coverage": coverage,
        "assumptions": list(getattr(mod, "ASSUMPTIONS", [])),
        "wall_s": round(wall, 2),
        "violations": viol_n,
    }
    evdir = os.environ.get("VERIF_EVIDENCE_DIR") or os.path.join(VERIF, "evidence")
    os.makedirs(evdir, exist_ok=True)
    with open(os.path.join(evdir, f"{prop}.json"), "w") as fh:
        json.dump(ev, fh, indent=1, sort_keys=True)
        fh.write("\n")
    print(
        f"{prop} tier={tier} seed={seed} evaluations={evaluations} distinct_nontrivial={len(nontrivial)} "
        f"violations={viol_n} known_hits={sum(known_hits.values())} wall={wall:.1f}s"
        + (" INCONCLUSIVE(budget)" if inconclusive else "")
    )
    return rc


def run_replay(mod, path: str) -> int:
    with open(path) as f:
        doc = jsonx.loads(f.read())
    rec = Rec(mod.PROPERTY, "replay", "quick", 0, time.monotonic() + 3600)
    rec.known = {}  # a replay always reports
    try:
        mod.replay(rec, doc["case"])
    except Violation as v:
        rec.fail(v.key, v.msg, doc["case"])
    if rec.failures:
        for f in rec.failures:
            print(f"VIOLATION property={mod.PROPERTY} replay={path}")
            print(f"  key={f['key']}: {f['msg'][:2000]}")
        return 1
    print(f"replay of {path}: property held")
    return 0
