"""Drive aiohttp's pure-Python HTTP parsers piecewise and canonicalise the outcome."""
from __future__ import annotations

import asyncio
from typing import Any

from .detloop import DetLoop, new_loop

_LOOP: DetLoop | None = None


def shared_loop() -> DetLoop:
    """Parsers only need a loop object to create futures; one per process is enough."""
    global _LOOP
    if _LOOP is None or _LOOP.is_closed():
        _LOOP = new_loop()
    return _LOOP


class Outcome:
    __slots__ = ("messages", "error", "error_msg", "limit", "tail", "upgraded", "eof_error", "eof_msg", "other_exc", "retained_max", "unusable_url", "unrenderable")

    def __init__(self) -> None:
        self.messages: list[dict] = []
        self.unrenderable: str | None = None  # the error cannot be turned into a 400 body the way the server does
        self.error: str | None = None  # exception class name raised by feed_data
        self.error_msg = ""
        self.limit = False  # error is a size-limit error
        self.tail = b""
        self.upgraded = False
        self.eof_error: str | None = None
        self.eof_msg: Any = None
        self.other_exc: BaseException | None = None  # non-HttpProcessingError escaping feed_data/feed_eof
        self.retained_max = 0
        self.unusable_url = False  # a delivered request carries a URL object that raises when read

    def canon(self, bodies: bool = True):
        ms = []
        for m in self.messages:
            d = dict(m)
            if not bodies:
                d.pop("body", None)
                d.pop("bounds", None)
                d.pop("payload_state", None)
            ms.append(tuple(sorted(d.items())))
        return (tuple(ms), self.error is not None, self.upgraded, self.tail if self.upgraded else b"")


def drive(kind: str, stream: bytes, cuts=(), *, limits: dict | None = None, read_limit: int = 2 ** 20,
          strict_response: bool = False, drain: bool = False, feed_eof: bool = True, parser_kwargs: dict | None = None,
          track_retained: bool = False) -> Outcome:
    """kind = 'request' | 'response'.  Feed stream cut at `cuts`, then feed_eof."""
    from aiohttp import http_parser as hp
    from aiohttp.base_protocol import BaseProtocol
    from aiohttp.http_exceptions import HttpProcessingError, LineTooLong
    from aiohttp.streams import EMPTY_PAYLOAD

    loop = shared_loop()
    out = Outcome()
    limits = limits or {}
    payloads: list = []  # (msg dict, StreamReader)
    state = {"stop": False}

    class Proto(BaseProtocol):
        def data_received(self, data: bytes) -> None:  # re-entered by resume_reading()
            if not state["stop"]:
                feed(data)

    proto = Proto(loop)
    kw = dict(limit=read_limit, **{k: v for k, v in limits.items()})
    # built the way the package builds them (web_protocol.RequestHandler / client_proto.ResponseHandler): the error
    # paths of the body parser depend on payload_exception
    if kind == "request":
        from aiohttp.web_protocol import RequestPayloadError

        kw["payload_exception"] = RequestPayloadError
    else:
        from aiohttp.client_exceptions import ClientPayloadError

        kw["payload_exception"] = ClientPayloadError
    kw.update(parser_kwargs or {})
    if kind == "request":
        parser = hp.HttpRequestParserPy(proto, loop, **kw)
        sep = None
    else:
        cls = hp.HttpResponseParserPy
        if strict_response:
            cls = type("StrictResponseParser", (hp.HttpResponseParserPy,), {"lax": False})
        parser = cls(proto, loop, read_until_eof=True, **kw)
        sep = b"\r\n" if strict_response else b"\n"
    proto._parser = parser

    def record(msg, payload) -> None:
        d: dict[str, Any] = {}
        if kind == "request":
            try:
                u = msg.url
                url_s = str(u)
                # what web.BaseRequest reads from it
                u.host, u.port, u.raw_path, u.query_string, u.scheme, u.path
            except Exception as e:  # noqa: BLE001 - the parser handed out a URL that cannot be used
                url_s = f"<unusable: {type(e).__name__}>"
                if out.other_exc is None:
                    out.other_exc = e
                    out.unusable_url = True
            d.update(method=msg.method, path=msg.path, version=tuple(msg.version), url=url_s)
        else:
            d.update(code=msg.code, reason=msg.reason, version=tuple(msg.version))
        d.update(raw_headers=tuple((bytes(a), bytes(b)) for a, b in msg.raw_headers), should_close=msg.should_close,
                 compression=msg.compression, upgrade=msg.upgrade, chunked=msg.chunked)
        d["body"] = b""
        d["empty_payload"] = payload is EMPTY_PAYLOAD
        out.messages.append(d)
        payloads.append((d, payload, bytearray()))

    def drain_payloads() -> None:
        if state.get("draining"):
            return  # re-entered through resume_reading(): the outer drain continues
        state["draining"] = True
        try:
            for d, p, buf in payloads:
                if p is EMPTY_PAYLOAD:
                    continue
                while p._buffer and p.exception() is None:
                    buf += p.read_nowait(1 << 20)
        finally:
            state["draining"] = False

    def feed(data: bytes) -> None:
        try:
            if sep is None:
                msgs, upgraded, tail = parser.feed_data(data)
            else:
                msgs, upgraded, tail = parser.feed_data(data, sep)
        except HttpProcessingError as e:
            state["stop"] = True
            out.error = type(e).__name__
            out.error_msg = str(e)[:200]
            out.limit = isinstance(e, LineTooLong) or "Too many" in str(e)
            try:
                # web_protocol renders exc.message into the text of the 400 response
                str(e.message).encode("utf-8")
            except Exception as enc:  # noqa: BLE001
                out.unrenderable = f"{type(e).__name__}.message={e.message!r}: {enc}"
            return
        except BaseException as e:  # noqa: BLE001
            state["stop"] = True
            out.error = type(e).__name__
            out.other_exc = e
            return
        for msg, payload in msgs:
            record(msg, payload)
        if upgraded:
            out.upgraded = True
            out.tail += tail
        if track_retained:
            held = len(getattr(parser, "_tail", b"")) + sum(len(x) for x in getattr(parser, "_lines", []))
            pp = getattr(parser, "_payload_parser", None)
            if pp is not None:
                held += len(getattr(pp, "_chunk_tail", b"")) + sum(len(x) for x in getattr(pp, "_trailer_lines", []))
            out.retained_max = max(out.retained_max, held)
        if drain:
            drain_payloads()

    prev = 0
    for c in list(cuts) + [len(stream)]:
        if state["stop"]:
            break
        piece = stream[prev:c]
        prev = c
        if out.upgraded:
            out.tail += piece
            continue
        feed(piece)
    if feed_eof and not state["stop"]:
        try:
            m = parser.feed_eof()
            if m is not None:
                out.eof_msg = (getattr(m, "method", None), getattr(m, "path", None), getattr(m, "code", None))
        except HttpProcessingError as e:
            out.eof_error = type(e).__name__
        except BaseException as e:  # noqa: BLE001
            out.eof_error = type(e).__name__
            out.other_exc = e
    state["stop"] = True
    # collect bodies / chunk boundaries / terminal payload state
    for d, p, buf in payloads:
        if p is EMPTY_PAYLOAD:
            d["payload_state"] = "empty"
            continue
        splits = list(getattr(p, "_http_chunk_splits", None) or [])
        if p.exception() is not None:
            buf += b"".join(bytes(x) for x in p._buffer)[getattr(p, "_buffer_offset", 0):]
        else:
            while p._buffer:
                buf += p.read_nowait(1 << 20)
        d["body"] = bytes(buf)
        exc = p.exception()
        d["payload_state"] = ("exc:" + type(exc).__name__) if exc is not None else ("eof" if p.is_eof() else "open")
        if not drain:
            d["bounds"] = tuple(splits)
    return out
