"""HTTP/1.x grammar (Hypothesis strategies), named mutation operators, an
independent strict RFC 9112 request reader and an independent response framer.

Nothing here imports aiohttp.
"""
from __future__ import annotations

import re
from dataclasses import dataclass, field

from hypothesis import strategies as st

TCHAR = "!#$%&'*+-.^_`|~0123456789abcdefghijklmnopqrstuvwxyzABCDEFGHIJKLMNOPQRSTUVWXYZ"
TCHAR_B = set(TCHAR.encode())
STD_METHODS = ["GET", "POST", "PUT", "DELETE", "PATCH", "OPTIONS", "HEAD"]
SPECIAL_NAMES = {"content-length", "transfer-encoding", "connection", "upgrade", "host", "content-encoding",
                 "expect", "sec-websocket-key1", "content-type", "content-location", "content-range", "etag",
                 "max-forwards", "server", "user-agent"}


# --------------------------------------------------------------------------- grammar
def tokens(min_size=1, max_size=8):
    return st.text(alphabet=st.sampled_from(TCHAR), min_size=min_size, max_size=max_size)


def header_names():
    return st.one_of(
        st.sampled_from(["X-A", "x-b", "Accept", "X-Long-Header-Name", "Cookie", "a", "X_1", "x.y", "~!#$%&'*+-.^_`|"]),
        tokens(1, 10).filter(lambda n: n.lower() not in SPECIAL_NAMES),
    )


def field_values(max_size=24):
    # VCHAR / SP / HTAB / obs-text, no leading/trailing whitespace (OWS added separately)
    inner = st.text(
        alphabet=st.one_of(st.characters(min_codepoint=0x21, max_codepoint=0x7E), st.sampled_from([" ", "\t", "\x80", "\xff", "\xe9"])),
        max_size=max_size,
    ).map(lambda s: s.strip(" \t"))
    return inner


OWS = st.sampled_from(["", " ", "\t", "  ", " \t"])


def paths():
    seg = st.text(alphabet=st.sampled_from("abcXYZ019-._~%41%2f%25:@!$&'()*+,;="), max_size=6)
    return st.lists(seg, min_size=0, max_size=4).map(lambda segs: "/" + "/".join(segs))


def queries():
    return st.one_of(st.just(""), st.text(alphabet=st.sampled_from("ab=&1%20+/?"), min_size=0, max_size=10).map(lambda q: "?" + q))


@st.composite
def targets(draw, method: str):
    if method == "OPTIONS" and draw(st.integers(0, 3)) == 0:
        return "*"
    form = draw(st.sampled_from(["origin", "origin", "origin", "absolute"]))
    p = draw(paths()) + draw(queries())
    if form == "origin":
        return p
    host = draw(st.sampled_from(["example.com", "a.b", "127.0.0.1", "[::1]", "example.com:8080"]))
    return f"http://{host}{p}"


def hex_spelling(draw, n: int) -> str:
    s = format(n, draw(st.sampled_from(["x", "X"])))
    return "0" * draw(st.sampled_from([0, 0, 0, 1, 3])) + s


@st.composite
def requests(draw, last: bool = True, max_body: int = 300, allow_close: bool = True, body_kinds=None):
    """One valid request: returns dict with 'bytes' and the intended reading."""
    method = draw(st.one_of(st.sampled_from(STD_METHODS), st.sampled_from(STD_METHODS), tokens(1, 7)))
    if method.upper() == "CONNECT":
        method = "GET"
    version = draw(st.sampled_from(["HTTP/1.1", "HTTP/1.1", "HTTP/1.1", "HTTP/1.0"]))
    target = draw(targets(method.upper()))
    headers: list[tuple[str, str, str, str]] = []  # name, ows-before, value, ows-after
    host_val = draw(st.sampled_from(["example.com", "example.com:80", "a", "[::1]:8080", ""]))
    extra = draw(st.lists(st.tuples(header_names(), OWS, field_values(), OWS), max_size=5))
    kind = draw(st.sampled_from(body_kinds or ["none", "none", "cl", "cl", "chunked", "chunked", "cl0"]))
    body = b""
    chunks: list[tuple[str, str, bytes]] = []
    trailers: list[tuple[str, str]] = []
    framing: list[tuple[str, str, str, str]] = []
    if kind == "cl":
        n = draw(st.one_of(st.integers(1, 20), st.integers(1, max_body)))
        body = draw(st.binary(min_size=n, max_size=n)) if n <= 64 else bytes((i * 31 + 7) & 0xFF for i in range(n))
        cl = ("0" * draw(st.sampled_from([0, 0, 2]))) + str(n)
        framing.append((draw(st.sampled_from(["Content-Length", "content-length", "CONTENT-LENGTH"])), draw(OWS), cl, draw(OWS)))
    elif kind == "cl0":
        framing.append(("Content-Length", " ", "0", ""))
    elif kind == "chunked":
        nch = draw(st.integers(0, 4))
        for _ in range(nch):
            n = draw(st.one_of(st.integers(1, 12), st.integers(1, max_body)))
            data = draw(st.binary(min_size=n, max_size=n)) if n <= 32 else bytes((i * 17 + 3) & 0xFF for i in range(n))
            ext = draw(st.sampled_from(["", "", "", ";a", ";a=b", ";a=\"q\\\"x\"", "; x", ";\ta = 1"]))
            chunks.append((hex_spelling(draw, n), ext, data))
        last_ext = draw(st.sampled_from(["", "", ";end"]))
        last_size = draw(st.sampled_from(["0", "0", "00", "000"]))
        chunks.append((last_size, last_ext, b""))
        trailers = draw(st.lists(st.tuples(header_names(), field_values(12)), max_size=2))
        body = b"".join(c[2] for c in chunks)
        te_val = draw(st.sampled_from(["chunked", "chunked", "Chunked", "CHUNKED", "gzip, chunked", "identity,chunked"]))
        framing.append((draw(st.sampled_from(["Transfer-Encoding", "transfer-encoding"])), draw(OWS), te_val, draw(OWS)))
        if version == "HTTP/1.0":
            version = "HTTP/1.1"
    conn = draw(st.sampled_from([None, None, "keep-alive", "close"] if (last and allow_close) else [None, None, "keep-alive"]))
    if version == "HTTP/1.0" and not last:
        conn = "keep-alive"
    hl = [("Host", " ", host_val, "")] if (version == "HTTP/1.1" or draw(st.booleans())) else []
    hl += extra + framing
    if conn:
        hl.append((draw(st.sampled_from(["Connection", "connection"])), " ", conn, ""))
    order = draw(st.permutations(range(len(hl))))
    hl = [hl[i] for i in order]
    head = f"{method} {target} {version}\r\n".encode("latin-1")
    spans = {}
    out = bytearray(head)
    hdr_spans = []
    for name, o1, val, o2 in hl:
        start = len(out)
        out += f"{name}:{o1}{val}{o2}\r\n".encode("latin-1")
        hdr_spans.append((start, len(out)))
    out += b"\r\n"
    body_start = len(out)
    chunk_line_spans = []
    if kind == "chunked":
        for size, ext, data in chunks:
            s0 = len(out)
            out += f"{size}{ext}\r\n".encode("latin-1")
            chunk_line_spans.append((s0, len(out)))
            if data:
                out += data + b"\r\n"
        for name, val in trailers:
            out += f"{name}: {val}\r\n".encode("latin-1")
        out += b"\r\n"
    else:
        out += body
    return {
        "bytes": bytes(out),
        "method": method.upper(),
        "target": target,
        "version": version,
        "headers": [(n, v) for n, _, v, _ in hl],
        "body": body,
        "kind": kind,
        "chunk_sizes": [len(c[2]) for c in chunks if c[2]],
        "trailers": trailers,
        "head_len": body_start,
        "request_line_len": len(head),
        "hdr_spans": hdr_spans,
        "chunk_line_spans": chunk_line_spans,
        "conn": conn,
    }


@st.composite
def pipelines(draw, max_n: int = 3, max_body: int = 300):
    n = draw(st.integers(1, max_n))
    reqs = [draw(requests(last=(i == n - 1), max_body=max_body)) for i in range(n)]
    offs = []
    pos = 0
    for r in reqs:
        offs.append(pos)
        pos += len(r["bytes"])
    return {"requests": reqs, "bytes": b"".join(r["bytes"] for r in reqs), "offsets": offs}


# --------------------------------------------------------------------------- responses
@st.composite
def responses(draw, last: bool = True, lf_endings: bool = False, max_body: int = 200):
    version = draw(st.sampled_from(["HTTP/1.1", "HTTP/1.1", "HTTP/1.0"]))
    status = draw(st.sampled_from([200, 200, 201, 204, 304, 404, 500, 100, 103, 301]))
    reason = draw(st.sampled_from(["OK", "", "Not Found", "Some Reason  Text", "\xe9t\xe9"]))
    nl = "\n" if lf_endings else "\r\n"
    extra = draw(st.lists(st.tuples(header_names(), OWS, field_values(), OWS), max_size=4))
    framing = []
    body = b""
    chunks = []
    kind = "none"
    if status >= 200 and status not in (204, 304):
        kind = draw(st.sampled_from(["cl", "cl0", "chunked", "eof"] if last else ["cl", "cl0", "chunked"]))
    if kind == "cl":
        n = draw(st.integers(1, max_body))
        body = bytes((i * 13 + 5) & 0xFF for i in range(n))
        framing.append(("Content-Length", " ", str(n), ""))
    elif kind == "cl0":
        framing.append(("Content-Length", " ", "0", ""))
    elif kind == "chunked":
        for _ in range(draw(st.integers(0, 3))):
            n = draw(st.integers(1, 40))
            chunks.append((hex_spelling(draw, n), draw(st.sampled_from(["", "", ";x=1"])), bytes((i * 3 + n) & 0xFF for i in range(n))))
        chunks.append(("0", "", b""))
        body = b"".join(c[2] for c in chunks)
        framing.append(("Transfer-Encoding", " ", "chunked", ""))
        version = "HTTP/1.1"
    elif kind == "eof":
        n = draw(st.integers(0, max_body))
        body = bytes((i * 11 + 1) & 0xFF for i in range(n))
    hl = extra + framing
    if kind == "eof" or (version == "HTTP/1.0" and not last):
        if kind != "eof":
            hl.append(("Connection", " ", "keep-alive", ""))
    out = bytearray(f"{version} {status}{' ' + reason if reason or draw(st.booleans()) else ''}{nl}".encode("latin-1"))
    for name, o1, val, o2 in hl:
        out += f"{name}:{o1}{val}{o2}{nl}".encode("latin-1")
    out += nl.encode()
    head_len = len(out)
    if kind == "chunked":
        for size, ext, data in chunks:
            out += f"{size}{ext}{nl}".encode("latin-1")
            if data:
                out += data + nl.encode()
        out += nl.encode()
    else:
        out += body
    return {"bytes": bytes(out), "status": status, "kind": kind, "body": body, "head_len": head_len, "version": version}


@st.composite
def response_streams(draw, lf_endings: bool = False):
    n = draw(st.integers(1, 3))
    rs = []
    for i in range(n):
        r = draw(responses(last=(i == n - 1), lf_endings=lf_endings))
        rs.append(r)
        if r["kind"] == "eof":
            break
    return {"responses": rs, "bytes": b"".join(r["bytes"] for r in rs)}


# --------------------------------------------------------------------------- mutation classes
# Each operator takes (draw, pipeline dict) and returns (bytes, class name, index of the mutated message) or None
CTLS = [bytes([c]) for c in list(range(0, 9)) + list(range(0x0B, 0x20)) + [0x7F]]  # forbidden CTLs except HTAB/LF


def _replace(b: bytes, a: int, z: int, new: bytes) -> bytes:
    return b[:a] + new + b[z:]


def mutation_classes():
    return list(MUTATORS)


def _pick_req(draw, pl, pred=lambda r: True):
    idx = [i for i, r in enumerate(pl["requests"]) if pred(r)]
    if not idx:
        return None
    return draw(st.sampled_from(idx))


def _hdr_lines(pl, i):
    r = pl["requests"][i]
    base = pl["offsets"][i]
    return [(base + a, base + z) for a, z in r["hdr_spans"]]


def m_cl_and_te(draw, pl):
    i = _pick_req(draw, pl, lambda r: r["kind"] in ("cl", "chunked"))
    if i is None:
        return None
    r = pl["requests"][i]
    ins = b"Transfer-Encoding: chunked\r\n" if r["kind"] == "cl" else b"Content-Length: " + str(draw(st.sampled_from([0, 5, len(r["body"])]))).encode() + b"\r\n"
    lines = _hdr_lines(pl, i)
    pos = draw(st.sampled_from([lines[0][0]] + [z for _, z in lines]))
    return _replace(pl["bytes"], pos, pos, ins)


def m_second_cl(draw, pl):
    i = _pick_req(draw, pl, lambda r: r["kind"] == "cl")
    if i is None:
        return None
    r = pl["requests"][i]
    n = len(r["body"])
    variant = draw(st.sampled_from(["equal", "different", "comma"]))
    lines = _hdr_lines(pl, i)
    if variant == "comma":
        # rewrite the CL value as a list
        for (a, z), (name, val) in zip(lines, r["headers"]):
            if name.lower() == "content-length":
                return _replace(pl["bytes"], a, z, f"Content-Length: {n}, {n}\r\n".encode())
        return None
    m = n if variant == "equal" else n + draw(st.sampled_from([1, -1, 10]))
    ins = f"Content-Length: {max(m, 0)}\r\n".encode()
    pos = draw(st.sampled_from([lines[0][0]] + [z for _, z in lines]))
    return _replace(pl["bytes"], pos, pos, ins)


def m_cl_spelling(draw, pl):
    i = _pick_req(draw, pl, lambda r: r["kind"] == "cl")
    if i is None:
        return None
    r = pl["requests"][i]
    n = len(r["body"])
    sp = draw(st.sampled_from([f"+{n}", f"-{n}", hex(n), f"{n}_", f"{n} 0" if n else "0 0", f"1 {n}", "", f"{n}.0", f"{n}e0",
                               "".join(chr(0x660 + int(c)) for c in str(n)).encode("utf-8").decode("latin-1"), f"{n}\x0b", f" {n}\x00"]))
    for (a, z), (name, val) in zip(_hdr_lines(pl, i), r["headers"]):
        if name.lower() == "content-length":
            return _replace(pl["bytes"], a, z, f"Content-Length: {sp}\r\n".encode("latin-1"))
    return None


def m_te_bad(draw, pl):
    i = _pick_req(draw, pl, lambda r: r["kind"] == "chunked")
    if i is None:
        return None
    r = pl["requests"][i]
    sp = draw(st.sampled_from(["chunked, gzip", "chunked, chunked", "chunked,chunked", "gzip", "identity", "chunked;q=1", "xchunked",
                               "chunked x", "", "chunkeıd".encode("utf-8").decode("latin-1"), "\"chunked\"", "chunked,", ",chunked,identity"]))
    for (a, z), (name, val) in zip(_hdr_lines(pl, i), r["headers"]):
        if name.lower() == "transfer-encoding":
            return _replace(pl["bytes"], a, z, f"Transfer-Encoding: {sp}\r\n".encode("latin-1"))
    return None


def m_te_twice(draw, pl):
    i = _pick_req(draw, pl, lambda r: r["kind"] == "chunked")
    if i is None:
        return None
    lines = _hdr_lines(pl, i)
    pos = draw(st.sampled_from([lines[0][0]] + [z for _, z in lines]))
    return _replace(pl["bytes"], pos, pos, b"Transfer-Encoding: " + draw(st.sampled_from([b"chunked", b"gzip"])) + b"\r\n")


def _crlf_positions(pl, i, where):
    """Offsets of CRLFs in message i by element."""
    r = pl["requests"][i]
    base = pl["offsets"][i]
    res = []
    if where == "request_line":
        res.append(base + r["request_line_len"] - 2)
    elif where == "header":
        res += [base + z - 2 for _, z in r["hdr_spans"]]
    elif where == "blank":
        res.append(base + r["head_len"] - 2)
    elif where == "chunk_size":
        res += [base + z - 2 for _, z in r["chunk_line_spans"]]
    elif where == "after_chunk":
        for (a, z), n in zip(r["chunk_line_spans"], r["chunk_sizes"]):
            res.append(base + z + n)
    elif where == "trailer":
        if r["kind"] == "chunked":
            end = base + len(r["bytes"])
            # final blank line and each trailer line end
            res.append(end - 2)
            pos = base + r["chunk_line_spans"][-1][1]
            for name, val in r["trailers"]:
                pos += len(f"{name}: {val}\r\n".encode("latin-1"))
                res.append(pos - 2)
    return res


def m_bare_lf(draw, pl):
    where = draw(st.sampled_from(["request_line", "header", "blank", "chunk_size", "after_chunk", "trailer"]))
    need_chunked = where in ("chunk_size", "after_chunk", "trailer")
    i = _pick_req(draw, pl, lambda r: (r["kind"] == "chunked") if need_chunked else True)
    if i is None:
        return None
    cands = [p for p in _crlf_positions(pl, i, where) if pl["bytes"][p:p + 2] == b"\r\n"]
    if not cands:
        return None
    p = draw(st.sampled_from(cands))
    return _replace(pl["bytes"], p, p + 2, b"\n"), f"bare_lf/{where}"


def m_bare_cr(draw, pl):
    where = draw(st.sampled_from(["request_line", "header", "chunk_size", "trailer"]))
    need_chunked = where in ("chunk_size", "trailer")
    i = _pick_req(draw, pl, lambda r: (r["kind"] == "chunked") if need_chunked else True)
    if i is None:
        return None
    cands = [p for p in _crlf_positions(pl, i, where) if pl["bytes"][p:p + 2] == b"\r\n"]
    if not cands:
        return None
    p = draw(st.sampled_from(cands))
    return _replace(pl["bytes"], p, p + 2, b"\r"), f"bare_cr/{where}"


def m_obs_fold(draw, pl):
    i = _pick_req(draw, pl, lambda r: len(r["headers"]) >= 1)
    if i is None:
        return None
    lines = _hdr_lines(pl, i)
    a, z = draw(st.sampled_from(lines))
    ws = draw(st.sampled_from([b" ", b"\t", b"  "]))
    return _replace(pl["bytes"], z, z, ws + b"folded\r\n")


def m_ctl_in_field(draw, pl):
    i = _pick_req(draw, pl, lambda r: len(r["headers"]) >= 1)
    if i is None:
        return None
    r = pl["requests"][i]
    k = draw(st.integers(0, len(r["headers"]) - 1))
    a, z = _hdr_lines(pl, i)[k]
    line = pl["bytes"][a:z - 2]
    colon = line.index(b":")
    ctl = draw(st.sampled_from(CTLS))
    part = draw(st.sampled_from(["name", "value"]))
    if part == "name":
        pos = draw(st.sampled_from([0, colon // 2, colon]))
    else:
        pos = draw(st.sampled_from([colon + 1, (colon + 1 + len(line)) // 2, len(line)]))
    return _replace(pl["bytes"], a + pos, a + pos, ctl), f"ctl_in_{part}"


def m_ws_around_name(draw, pl):
    i = _pick_req(draw, pl, lambda r: len(r["headers"]) >= 1)
    if i is None:
        return None
    r = pl["requests"][i]
    k = draw(st.integers(0, len(r["headers"]) - 1))
    a, z = _hdr_lines(pl, i)[k]
    line = pl["bytes"][a:z]
    colon = line.index(b":")
    ws = draw(st.sampled_from([b" ", b"\t"]))
    variant = draw(st.sampled_from(["before_colon", "before_name", "inside_name"]))
    if variant == "before_colon":
        return _replace(pl["bytes"], a + colon, a + colon, ws), "ws_before_colon"
    if variant == "before_name":
        if k == 0:
            return _replace(pl["bytes"], a, a, ws), "ws_before_first_name"
        return _replace(pl["bytes"], a, a, ws), "ws_before_name(fold)"
    if colon < 2:
        return None
    return _replace(pl["bytes"], a + 1, a + 1, ws), "ws_inside_name"


def m_chunk_size_bad(draw, pl):
    i = _pick_req(draw, pl, lambda r: r["kind"] == "chunked")
    if i is None:
        return None
    r = pl["requests"][i]
    base = pl["offsets"][i]
    k = draw(st.integers(0, len(r["chunk_line_spans"]) - 1))
    a, z = r["chunk_line_spans"][k]
    line = pl["bytes"][base + a:base + z - 2]
    semi = line.find(b";")
    size = line if semi < 0 else line[:semi]
    rest = b"" if semi < 0 else line[semi:]
    sp = draw(st.sampled_from([b"+" + size, b"-" + size, b"0x" + size, size + b" ", b" " + size, b"", size + b"g", size + b"_", size[:1] + b" " + size[1:] if len(size) > 1 else b" ",
                               size + b"\t", b"\xd9\xa1" + size]))
    return _replace(pl["bytes"], base + a, base + z - 2, sp + rest), "chunk_size_bad"


def m_chunk_ext_bad(draw, pl):
    i = _pick_req(draw, pl, lambda r: r["kind"] == "chunked")
    if i is None:
        return None
    r = pl["requests"][i]
    base = pl["offsets"][i]
    k = draw(st.integers(0, len(r["chunk_line_spans"]) - 1))
    a, z = r["chunk_line_spans"][k]
    bad = draw(st.sampled_from([b";a\nb", b";a=\"x\ny\"", b";\n", b";a\rb", b";a\x00b", b";a\x7f"]))
    return _replace(pl["bytes"], base + z - 2, base + z - 2, bad), ("chunk_ext_lf" if b"\n" in bad else "chunk_ext_ctl")


def m_trailer_bad(draw, pl):
    i = _pick_req(draw, pl, lambda r: r["kind"] == "chunked")
    if i is None:
        return None
    r = pl["requests"][i]
    base = pl["offsets"][i]
    end = base + len(r["bytes"]) - 2  # before the final blank line
    bad = draw(st.sampled_from([b"no-colon-line\r\n", b"X : v\r\n", b" X: v\r\n", b"X: a\nY: b\r\n", b"X: v\r\n folded\r\n", b"X\x00: v\r\n", b"X: v\x01\r\n", b": v\r\n"]))
    return _replace(pl["bytes"], end, end, bad), "trailer_bad"


def m_host(draw, pl):
    i = _pick_req(draw, pl, lambda r: r["version"] == "HTTP/1.1")
    if i is None:
        return None
    r = pl["requests"][i]
    lines = _hdr_lines(pl, i)
    hidx = [k for k, (n, v) in enumerate(r["headers"]) if n.lower() == "host"]
    variant = draw(st.sampled_from(["missing", "repeated", "repeated_same"]))
    if variant == "missing":
        if len(hidx) != 1:
            return None
        a, z = lines[hidx[0]]
        return _replace(pl["bytes"], a, z, b""), "host_missing"
    val = b"other.example" if variant == "repeated" else r["headers"][hidx[0]][1].encode("latin-1")
    pos = draw(st.sampled_from([lines[0][0]] + [z for _, z in lines]))
    return _replace(pl["bytes"], pos, pos, b"Host: " + val + b"\r\n"), "host_repeated"


def m_request_line(draw, pl):
    i = _pick_req(draw, pl)
    r = pl["requests"][i]
    base = pl["offsets"][i]
    line = pl["bytes"][base:base + r["request_line_len"] - 2]
    method, target, version = line.split(b" ", 2)
    variant = draw(st.sampled_from(["two_spaces", "tab_sep", "bad_method", "bad_version", "lower_version", "no_version", "ctl_target", "sp_target", "empty_method", "http09", "version_ws", "lf_target", "cr_target", "crlf_less_lf_version"]))
    new = {
        "two_spaces": method + b"  " + target + b" " + version,
        "tab_sep": method + b"\t" + target + b" " + version,
        "bad_method": method + draw(st.sampled_from([b"(", b"@", b"\"", b":", b"\xe9"])) + b" " + target + b" " + version,
        "bad_version": method + b" " + target + b" " + draw(st.sampled_from([b"HTTP/1", b"HTTP/1.1.1", b"HTTP/11", b"HTTP/1.a", b"HTTX/1.1", b"HTTP/+1.1", b"HTTP/1. 1", b"HTTP/\xd9\xa1.1"])),
        "lower_version": method + b" " + target + b" http/1.1",
        "no_version": method + b" " + target,
        "ctl_target": method + b" " + target[:1] + draw(st.sampled_from([b"\x00", b"\x01", b"\x7f", b"\x0b", b"\x1f"])) + target[1:] + b" " + version,
        "sp_target": method + b" " + target[:1] + b" " + target[1:] + b" " + version,
        "lf_target": method + b" " + target[:1] + b"\n" + target[1:] + b" " + version,
        "cr_target": method + b" " + target + b"\r " + version,
        "crlf_less_lf_version": method + b" " + target + b" " + version + b"\nX-Smuggled: 1",
        "empty_method": b" " + target + b" " + version,
        "http09": method + b" " + target + b" HTTP/0.9",
        "version_ws": method + b" " + target + b" " + version + b" ",
    }[variant]
    return _replace(pl["bytes"], base, base + len(line), new), f"request_line/{variant}"


def m_header_no_colon(draw, pl):
    i = _pick_req(draw, pl)
    lines = _hdr_lines(pl, i)
    pos = draw(st.sampled_from([lines[0][0]] + [z for _, z in lines])) if lines else pl["offsets"][i] + pl["requests"][i]["request_line_len"]
    bad = draw(st.sampled_from([b"NoColonHere\r\n", b": empty-name\r\n", b"Na me: v\r\n", b"N\xe9: v\r\n", b"N(a): v\r\n", b"N\"a: v\r\n"]))
    return _replace(pl["bytes"], pos, pos, bad), "header_name_bad"


MUTATORS = {
    "cl_and_te": m_cl_and_te,
    "second_cl": m_second_cl,
    "cl_spelling": m_cl_spelling,
    "te_bad": m_te_bad,
    "te_twice": m_te_twice,
    "bare_lf": m_bare_lf,
    "bare_cr": m_bare_cr,
    "obs_fold": m_obs_fold,
    "ctl_in_field": m_ctl_in_field,
    "ws_around_name": m_ws_around_name,
    "chunk_size_bad": m_chunk_size_bad,
    "chunk_ext_bad": m_chunk_ext_bad,
    "trailer_bad": m_trailer_bad,
    "host": m_host,
    "request_line": m_request_line,
    "header_name_bad": m_header_no_colon,
}


@st.composite
def mutated_pipelines(draw, cls: str | None = None, max_n: int = 3, max_body: int = 120):
    pl = draw(pipelines(max_n=max_n, max_body=max_body))
    name = cls or draw(st.sampled_from(sorted(MUTATORS)))
    res = MUTATORS[name](draw, pl)
    if res is None:
        return {"bytes": pl["bytes"], "cls": "valid", "base": pl}
    if isinstance(res, tuple):
        data, sub = res
    else:
        data, sub = res, name
    return {"bytes": data, "cls": sub, "base": pl}


@st.composite
def raw_mutations(draw, max_n: int = 2):
    pl = draw(pipelines(max_n=max_n, max_body=60))
    s = bytearray(pl["bytes"])
    for _ in range(draw(st.integers(1, 3))):
        if not s:
            break
        op = draw(st.sampled_from(["flip", "ins", "del", "dup", "set"]))
        i = draw(st.integers(0, len(s) - 1))
        if op == "flip":
            s[i] ^= 1 << draw(st.integers(0, 7))
        elif op == "ins":
            s[i:i] = draw(st.one_of(st.binary(min_size=1, max_size=3), st.sampled_from([b"\r", b"\n", b"\r\n", b" ", b"\t", b":", b";", b"\x00", b"0", b"chunked"])))
        elif op == "del":
            del s[i:i + draw(st.integers(1, 4))]
        elif op == "set":
            s[i] = draw(st.sampled_from(list(b"\r\n \t:;,0aF\x00\x7f\xff")))
        else:
            j = draw(st.integers(i, min(len(s), i + 12)))
            s[i:i] = s[i:j]
    return {"bytes": bytes(s), "cls": "raw", "base": pl}


# --------------------------------------------------------------------------- strict RFC 9112 request reader
# Verdicts: a list of Msg up to the first problem, then one of
#   ("ok", None)            the stream ends exactly at a message boundary
#   ("incomplete", Msg|None) the stream ends inside message k (Msg has what is known: head parsed? partial body)
#   ("reject", reason)      message k is malformed / ambiguous: MUST be answered with a client error
#   ("dontcare", reason)    message k is outside what the property decides (accept or reject both fine)
#   ("upgrade", tail)       message k-1 switched protocols; `tail` is everything after it
FORBIDDEN_CTL = set(range(0, 9)) | set(range(10, 32)) | {127}  # everything but HTAB; includes CR and LF


@dataclass
class Msg:
    method: str = ""
    target: bytes = b""
    version: tuple = (1, 1)
    headers: list = field(default_factory=list)  # (name bytes, value bytes trimmed)
    body: bytes = b""
    start: int = 0
    end: int = 0
    head_end: int = 0
    chunk_ends: list = field(default_factory=list)
    complete: bool = False
    upgrade: bool = False


def _line(stream: bytes, pos: int):
    """Next CRLF-terminated line -> (line, next_pos) | None if no CRLF yet; a bare LF before the CRLF stays inside."""
    i = stream.find(b"\r\n", pos)
    if i < 0:
        return None
    return stream[pos:i], i + 2


def _field(line: bytes):
    """field-line -> (name, value) or reject reason."""
    if line[:1] in (b" ", b"\t"):
        return "obs-fold or leading whitespace"
    if b":" not in line:
        return "no colon in field line"
    name, value = line.split(b":", 1)
    if not name or any(c not in TCHAR_B for c in name):
        return "field name is not a token"
    if any(c in FORBIDDEN_CTL for c in value):
        return "control byte in field value"
    return name, value.strip(b" \t")


def strict_read(stream: bytes, max_messages: int = 50, _allow_te10: bool = False):
    msgs: list[Msg] = []
    pos = 0
    n = len(stream)
    while pos < n and len(msgs) < max_messages:
        # RFC 9112 2.2: a server SHOULD ignore at least one empty line received prior to the request-line
        while stream[pos:pos + 2] == b"\r\n":
            pos += 2
        if pos >= n:
            break
        m = Msg(start=pos)
        r = _line(stream, pos)
        if r is None:
            rest = stream[pos:]
            if b"\n" in rest:
                return msgs, ("reject", "bare LF in request line")
            return msgs, ("incomplete", None)
        line, p = r
        if b"\n" in line or b"\r" in line:
            return msgs, ("reject", "bare CR/LF inside the request line")
        parts = line.split(b" ")
        if len(parts) != 3 or not all(parts):
            return msgs, ("reject", "request line is not 'method SP target SP version'")
        method, target, version = parts
        if any(c not in TCHAR_B for c in method):
            return msgs, ("reject", "method is not a token")
        mv = re.fullmatch(rb"HTTP/([0-9])\.([0-9])", version)
        if not mv:
            return msgs, ("reject", "bad HTTP-version")
        if any(c < 0x21 or c == 0x7F for c in target):
            return msgs, ("reject", "control byte in request-target")  # RFC 9112 3.2 / RFC 3986: no CTL in a target; see finding 2ca9a6c
        m.method = method.decode().upper()
        m.target = target
        m.version = (int(mv.group(1)), int(mv.group(2)))
        if m.version[0] != 1:
            return msgs, ("dontcare", "HTTP major version != 1")
        # header section
        while True:
            r = _line(stream, p)
            if r is None:
                rest = stream[p:]
                if b"\n" in rest:
                    return msgs, ("reject", "bare LF in header section")
                return msgs, ("incomplete", None)
            line, p = r
            if line == b"":
                break
            if b"\n" in line:
                return msgs, ("reject", "bare LF in header section")
            f = _field(line)
            if isinstance(f, str):
                return msgs, ("reject", f)
            m.headers.append(f)
        m.head_end = p
        names = [h[0].lower() for h in m.headers]
        # target forms
        if m.method == "CONNECT":
            return msgs, ("dontcare", "CONNECT")
        if not (target.startswith(b"/") or target == b"*" or re.match(rb"[A-Za-z][A-Za-z0-9+.-]*://", target)):
            if re.match(rb"[A-Za-z0-9+.-]+://", target):
                # scheme-like prefix that does not start with ALPHA ('0ttp://'): URI syntax, not message framing; the target
                # reaches the application verbatim
                return msgs, ("dontcare", "absolute-form with a scheme that does not start with a letter")
            return msgs, ("reject", "request-target is neither origin-, absolute- nor asterisk-form")
        if target == b"*" and m.method != "OPTIONS":
            return msgs, ("reject", "asterisk-form with a method other than OPTIONS")
        if not target.startswith(b"/") and target != b"*":
            # absolute-form: host/port syntax is yarl's business -> undecided unless plainly fine
            if not re.fullmatch(rb"[A-Za-z][A-Za-z0-9+.-]*://(\[[0-9A-Fa-f:.]+\]|[A-Za-z0-9.-]+)(:[0-9]{1,5})?(/[\x21-\x7e\x80-\xff]*)?", target):
                return msgs, ("dontcare", "unusual absolute-form target")
        # Host
        hosts = names.count(b"host")
        if m.version == (1, 1) and hosts == 0:
            return msgs, ("reject", "HTTP/1.1 request without Host")
        if hosts > 1:
            return msgs, ("reject", "repeated Host")
        # framing
        cls = [v for k, v in m.headers if k.lower() == b"content-length"]
        tes = [v for k, v in m.headers if k.lower() == b"transfer-encoding"]
        if cls and tes:
            return msgs, ("reject", "Content-Length together with Transfer-Encoding")
        if len(cls) > 1:
            return msgs, ("reject", "repeated Content-Length")
        if len(tes) > 1:
            return msgs, ("reject", "repeated Transfer-Encoding")
        for k in names:
            if names.count(k) > 1 and k in (b"content-type", b"content-location", b"content-range", b"etag", b"max-forwards", b"server", b"user-agent"):
                return msgs, ("dontcare", "duplicate singleton header (documented hardening)")
        if b"sec-websocket-key1" in names:
            return msgs, ("dontcare", "hixie-76 handshake")
        conn = b",".join(v for k, v in m.headers if k.lower() == b"connection").lower()
        upgrade_hdr = [v for k, v in m.headers if k.lower() == b"upgrade"]
        if tes:
            te = tes[0]
            codings = [c.strip(b" \t") for c in te.split(b",")]
            if not all(c.isascii() for c in codings):
                # Case-insensitivity of coding names is ASCII-only: a non-ASCII name (even one that Unicode-folds to "chunked",
                # e.g. with U+212A KELVIN SIGN) is an unknown coding.  As the final coding it cannot frame the body: reject.
                # Before a final, single, ASCII "chunked" it is tolerated like any unknown coding
                # (tests/test_http_parser.py test_request_te_last_chunked): DON'T-CARE.
                lowb = [c.lower() for c in codings]
                if lowb[-1] != b"chunked" or lowb.count(b"chunked") != 1:
                    return msgs, ("reject", "non-ASCII transfer coding and no single final 'chunked'")
                return msgs, ("dontcare", "non-ASCII unknown transfer coding before a final chunked")
            low = [c.lower() for c in codings]
            if low.count(b"chunked") != 1 or low[-1] != b"chunked":
                return msgs, ("reject", "transfer coding is not a single final 'chunked'")
            if m.version == (1, 0) and not _allow_te10:
                # RFC 9112 6.1: framing is to be treated as faulty (reject, or process and close).  What must NOT happen is
                # reading the message as body-less and the chunk framing as the next request: if the message is delivered at
                # all, its body is the chunked-decoded one.  Anything malformed inside stays DON'T-CARE.
                sub_msgs, _sub_verdict = strict_read(stream[m.start:], max_messages=1, _allow_te10=True)
                if sub_msgs and sub_msgs[0].complete:
                    first = sub_msgs[0]
                    first.start += m.start
                    first.end += m.start
                    msgs.append(first)
                    return msgs, ("te10", "Transfer-Encoding: chunked in an HTTP/1.0 request")
                return msgs, ("dontcare", "Transfer-Encoding in HTTP/1.0")
            # chunked body
            body = bytearray()
            q = p
            while True:
                r = _line(stream, q)
                if r is None:
                    rest = stream[q:]
                    if b"\n" in rest:
                        return msgs, ("reject", "bare LF in chunk-size line")
                    m.body = bytes(body)
                    msgs_partial = m
                    return msgs, ("incomplete", msgs_partial)
                line, q2 = r
                if b"\n" in line:
                    return msgs, ("reject", "bare LF in chunk-size line")
                size_b, _, ext = line.partition(b";")
                if not re.fullmatch(rb"[0-9A-Fa-f]+", size_b):
                    if re.fullmatch(rb"[0-9A-Fa-f]+[ \t]+", size_b) and b";" in line:
                        return msgs, ("dontcare", "BWS before chunk extension")
                    return msgs, ("reject", "malformed chunk size")
                if any(c in FORBIDDEN_CTL for c in ext):
                    return msgs, ("reject", "control byte in chunk extension")
                size = int(size_b, 16)
                q = q2
                if size == 0:
                    break
                if n - q < size:
                    body += stream[q:]
                    m.body = bytes(body)
                    return msgs, ("incomplete", m)
                body += stream[q:q + size]
                q += size
                if n - q < 2:
                    if stream[q:] not in (b"", b"\r"):
                        return msgs, ("reject", "missing CRLF after chunk data")
                    m.body = bytes(body)
                    return msgs, ("incomplete", m)
                if stream[q:q + 2] != b"\r\n":
                    return msgs, ("reject", "missing CRLF after chunk data")
                q += 2
                m.chunk_ends.append(len(body))
            # trailers
            while True:
                r = _line(stream, q)
                if r is None:
                    if b"\n" in stream[q:]:
                        return msgs, ("reject", "bare LF in trailer section")
                    m.body = bytes(body)
                    return msgs, ("incomplete", m)
                line, q = r
                if line == b"":
                    break
                if b"\n" in line:
                    return msgs, ("reject", "bare LF in trailer section")
                f = _field(line)
                if isinstance(f, str):
                    return msgs, ("reject", "trailer: " + f)
            m.body = bytes(body)
            m.end = q
        elif cls:
            v = cls[0]
            if not re.fullmatch(rb"[0-9]+", v):
                return msgs, ("reject", "Content-Length is not 1*DIGIT")
            if len(v) > 18:
                return msgs, ("dontcare", "absurdly long Content-Length")
            ln = int(v)
            if n - p < ln:
                m.body = stream[p:]
                return msgs, ("incomplete", m)
            m.body = stream[p:p + ln]
            m.end = p + ln
        else:
            m.end = p
        m.complete = True
        msgs.append(m)
        pos = m.end
        if upgrade_hdr and b"upgrade" in [t.strip() for t in conn.split(b",")]:
            m.upgrade = True
            return msgs, ("upgrade", stream[pos:])
        if m.version == (1, 0) and b"keep-alive" not in conn or b"close" in [t.strip() for t in conn.split(b",")]:
            if pos < n:
                return msgs, ("dontcare", "bytes after a message that asked to close")
            return msgs, ("ok", None)
    return msgs, ("ok", None)


# --------------------------------------------------------------------------- independent response framer
@dataclass
class Resp:
    status: int = 0
    reason: bytes = b""
    version: bytes = b""
    headers: list = field(default_factory=list)
    body: bytes = b""
    complete: bool = False
    framing: str = ""
    start: int = 0
    end: int = 0

    def get(self, name: bytes, default=None):
        for k, v in self.headers:
            if k.lower() == name.lower():
                return v
        return default

    def getall(self, name: bytes):
        return [v for k, v in self.headers if k.lower() == name.lower()]


def frame_responses(data: bytes, head_request_indexes=(), closed: bool = True):
    """Split server output into responses the way a strict client would.

    Returns (responses, problem) where problem is None or a string describing why the bytes
    after the last well-formed response cannot be (the start of) a response.
    The last response may be incomplete (complete=False)."""
    out: list[Resp] = []
    pos = 0
    n = len(data)
    idx = 0
    while pos < n:
        r = Resp(start=pos)
        i = data.find(b"\r\n\r\n", pos)
        if i < 0:
            if not re.match(rb"HTTP/[0-9]\.[0-9] [0-9]{0,3}", data[pos:pos + 12]) and len(data) - pos >= 12:
                return out, f"bytes at {pos} do not start a response: {data[pos:pos + 40]!r}"
            r.complete = False
            out.append(r)
            return out, None
        head = data[pos:i].split(b"\r\n")
        m = re.fullmatch(rb"(HTTP/[0-9]\.[0-9]) ([0-9]{3})(?: (.*))?", head[0])
        if not m:
            return out, f"bad status line at {pos}: {head[0][:60]!r}"
        r.version, r.status, r.reason = m.group(1), int(m.group(2)), m.group(3) or b""
        for line in head[1:]:
            if b":" not in line or line[:1] in b" \t" or b"\r" in line or b"\n" in line:
                return out, f"bad header line in response {idx}: {line[:60]!r}"
            k, v = line.split(b":", 1)
            if not k or any(c not in TCHAR_B for c in k):
                return out, f"bad header name in response {idx}: {k[:40]!r}"
            r.headers.append((k, v.strip(b" \t")))
        p = i + 4
        te = r.getall(b"transfer-encoding")
        cl = r.getall(b"content-length")
        if 100 <= r.status < 200 or r.status in (204, 304) or idx in head_request_indexes:
            r.framing = "none"
            r.end = p
            r.complete = True
        elif te:
            if cl:
                return out, f"response {idx} has both Transfer-Encoding and Content-Length"
            r.framing = "chunked"
            body = bytearray()
            q = p
            while True:
                j = data.find(b"\r\n", q)
                if j < 0:
                    r.body = bytes(body)
                    out.append(r)
                    return out, None
                line = data[q:j]
                sz = line.split(b";", 1)[0]
                if not re.fullmatch(rb"[0-9A-Fa-f]+", sz):
                    return out, f"response {idx}: bad chunk-size line {line[:40]!r} (bytes of another message inside the body?)"
                size = int(sz, 16)
                q = j + 2
                if size == 0:
                    # trailers
                    while True:
                        j = data.find(b"\r\n", q)
                        if j < 0:
                            r.body = bytes(body)
                            out.append(r)
                            return out, None
                        if j == q:
                            q += 2
                            break
                        q = j + 2
                    break
                if n - q < size + 2:
                    body += data[q:q + size]
                    r.body = bytes(body)
                    out.append(r)
                    return out, None
                body += data[q:q + size]
                if data[q + size:q + size + 2] != b"\r\n":
                    return out, f"response {idx}: chunk data not followed by CRLF"
                q += size + 2
            r.body = bytes(body)
            r.end = q
            r.complete = True
        elif cl:
            if len(set(cl)) != 1 or not re.fullmatch(rb"[0-9]+", cl[0]):
                return out, f"response {idx}: bad Content-Length {cl!r}"
            ln = int(cl[0])
            r.framing = "length"
            r.body = data[p:p + ln]
            if n - p < ln:
                out.append(r)
                return out, None
            r.end = p + ln
            r.complete = True
        else:
            r.framing = "eof"
            r.body = data[p:]
            r.end = n
            r.complete = closed
        out.append(r)
        pos = r.end
        if r.status >= 200:
            idx += 1
    return out, None
