"""Hypothesis glue: seeded, database-free runs with collect-then-continue.

run(rec, strategy, body, n) draws cases, calls body(rec, case); body raises
runner.Violation(key, msg) when the oracle fails.  A failure whose key is a
listed open finding is tallied and the search continues.  An unlisted failure
is shrunk by Hypothesis, recorded, its key muted, and the search restarted so
that other root causes behind it are still found (up to `max_root_causes`).
"""
from __future__ import annotations

import traceback
from typing import Any, Callable

from hypothesis import HealthCheck, Phase, given, seed, settings
from hypothesis.errors import Flaky, FlakyFailure, Unsatisfiable

from .runner import HarnessError, Rec, Violation


def exc_key(e: BaseException, prefix: str = "unexpected-exception") -> str:
    """Root-cause bucket for an unexpected exception: type + innermost aiohttp frame."""
    tb = traceback.extract_tb(e.__traceback__)
    where = "?"
    for fr in reversed(tb):
        if "/aiohttp/" in fr.filename:
            where = f"{fr.filename.rsplit('/', 1)[-1]}:{fr.name}"
            break
    return f"{prefix}/{type(e).__name__}/{where}"


def run(
    rec: Rec,
    strategy: Any,
    body: Callable[[Rec, Any], None],
    n: int,
    *,
    shrink: bool = True,
    max_root_causes: int = 4,
    seed_offset: int = 0,
) -> None:
    phases = [Phase.generate, Phase.target] + ([Phase.shrink] if shrink else [])
    for attempt in range(max_root_causes):
        last: dict[str, Any] = {}

        @settings(
            max_examples=n,
            database=None,
            deadline=None,
            derandomize=False,
            report_multiple_bugs=False,
            suppress_health_check=list(HealthCheck),
            phases=phases,
            print_blob=False,
        )
        @seed(rec.seed * 1000 + seed_offset + attempt * 7919)
        @given(strategy)
        def t(case: Any) -> None:
            if rec.expired():
                return
            try:
                body(rec, case)
            except Violation as v:
                if rec.is_known(v.key):
                    rec.known_hits[v.key] += 1
                    return
                if v.key in rec.muted:
                    return
                last["v"] = v
                last["case"] = case
                raise

        try:
            t()
        except Violation:
            v = last["v"]
            rec.fail(v.key, v.msg, last["case"])
            rec.muted.add(v.key)
            continue
        except (Flaky, FlakyFailure) as e:
            v = last.get("v")
            if v is not None:
                rec.fail(v.key + "/flaky", v.msg + f" [flaky under replay: {e}]", last["case"])
                rec.muted.add(v.key)
                continue
            raise HarnessError(f"flaky without violation: {e}")
        except Unsatisfiable as e:
            raise HarnessError(str(e))
        return
