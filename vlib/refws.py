"""Independent RFC 6455 / RFC 7692 reference codec (no aiohttp imports).

encode_frame / Deflater build wire bytes; decode() is a non-incremental
reference decoder over a complete byte string that returns the messages up to
the first violation and the set of acceptable close codes for that violation.
"""
from __future__ import annotations

import struct
import zlib
from dataclasses import dataclass, field

OP_CONT, OP_TEXT, OP_BINARY, OP_CLOSE, OP_PING, OP_PONG = 0, 1, 2, 8, 9, 10
TAIL = b"\x00\x00\xff\xff"

# RFC 6455 7.4.1 + IANA registry: codes that may appear in a Close frame
VALID_CLOSE_CODES = {1000, 1001, 1002, 1003, 1007, 1008, 1009, 1010, 1011, 1012, 1013, 1014}
# 1004/1005/1006/1015 are reserved and MUST NOT be sent; <1000 and 1016..2999 unassigned/reserved
DONTCARE_CLOSE_CODES: set[int] = set()


def mask_bytes(mask: bytes, data: bytes) -> bytes:
    n = len(data)
    if not n:
        return b""
    m = (mask * ((n + 3) // 4))[:n]
    return (int.from_bytes(data, "big") ^ int.from_bytes(m, "big")).to_bytes(n, "big")


def encode_frame(
    opcode: int,
    payload: bytes,
    fin: bool = True,
    rsv1: bool = False,
    rsv2: bool = False,
    rsv3: bool = False,
    mask: bytes | None = None,
    len_form: int | None = None,
    declared_len: int | None = None,
) -> bytes:
    b0 = (0x80 if fin else 0) | (0x40 if rsv1 else 0) | (0x20 if rsv2 else 0) | (0x10 if rsv3 else 0) | (opcode & 0xF)
    n = len(payload) if declared_len is None else declared_len
    mbit = 0x80 if mask is not None else 0
    if len_form is None:
        len_form = 0 if n < 126 else (126 if n < 65536 else 127)
    if len_form == 0:
        head = struct.pack("!BB", b0, mbit | n)
    elif len_form == 126:
        head = struct.pack("!BBH", b0, mbit | 126, n)
    else:
        head = struct.pack("!BBQ", b0, mbit | 127, n)
    if mask is not None:
        return head + mask + mask_bytes(mask, payload)
    return head + payload


class Deflater:
    """permessage-deflate sender side."""

    def __init__(self, wbits: int = 15, no_takeover: bool = False, level: int = 6) -> None:
        self.wbits = wbits
        self.no_takeover = no_takeover
        self.level = level
        self._c = None

    def message(self, data: bytes) -> bytes:
        if self._c is None or self.no_takeover:
            self._c = zlib.compressobj(self.level, zlib.DEFLATED, -self.wbits)
        out = self._c.compress(data) + self._c.flush(zlib.Z_SYNC_FLUSH)
        assert out.endswith(TAIL)
        return out[:-4]


@dataclass
class Config:
    compress: bool = False  # permessage-deflate negotiated
    decode_text: bool = True
    max_msg_size: int = 0  # 0 = unlimited
    # DON'T-CARE resolutions (the checker tries every combination, see variants())
    eq_wire: bool = False  # wire size == max_msg_size rejected?
    eq_inflated: bool = False  # inflated size == max_msg_size rejected?
    limit_on_wire: bool = False  # limit applied to the declared wire size at the frame header (before buffering)
    no_takeover: bool = False  # the sender promised no context takeover: inflate every message with a fresh context
    strict_minimal: bool = False  # RFC 6455 5.2: the minimal length encoding MUST be used (used to validate writers)

    def variants(self):
        if not self.max_msg_size:
            return [self]
        out = []
        for a in (False, True):
            for b in (False, True):
                for c in (False, True):
                    out.append(Config(self.compress, self.decode_text, self.max_msg_size, a, b, c, self.no_takeover, self.strict_minimal))
        return out


@dataclass
class Outcome:
    messages: list = field(default_factory=list)
    error: frozenset | None = None  # acceptable close codes (None: no violation); empty set = any exception
    error_optional: bool = False  # violation visible only in an incomplete trailing frame: reporting it yet is optional
    why: str = ""
    consumed: int = 0  # bytes up to the end of the last complete frame
    closed: bool = False  # a Close frame was delivered (later frames are DON'T-CARE)
    undecided: bool = False  # the stream left the decided domain here (e.g. deflate BFINAL): only the prefix is compared


def _err(out: Outcome, codes, why: str, optional: bool = False) -> Outcome:
    out.error = frozenset(codes)
    out.why = why
    out.error_optional = optional
    return out


def decode(stream: bytes, cfg: Config) -> Outcome:
    out = Outcome()
    pos = 0
    n = len(stream)
    inflater = None
    frag_opcode = None  # opcode of the fragmented message in progress
    frag_compressed = False
    frag_parts: list[bytes] = []
    frag_len = 0
    mx = cfg.max_msg_size

    while True:
        if n - pos < 2:
            break
        b0, b1 = stream[pos], stream[pos + 1]
        fin, rsv1, rsv2, rsv3, opcode = b0 >> 7, (b0 >> 6) & 1, (b0 >> 5) & 1, (b0 >> 4) & 1, b0 & 0xF
        masked, l7 = b1 >> 7, b1 & 0x7F
        control = opcode >= 8
        ext = 2 if l7 == 126 else 8 if l7 == 127 else 0
        hdr_len = 2 + ext + (4 if masked else 0)
        # is the whole frame present?  (needed to decide whether reporting is optional)
        complete = False
        length = None
        if n - pos >= 2 + ext:
            if l7 == 126:
                (length,) = struct.unpack_from("!H", stream, pos + 2)
            elif l7 == 127:
                (length,) = struct.unpack_from("!Q", stream, pos + 2)
            else:
                length = l7
            complete = n - pos >= hdr_len + length
        opt = not complete
        if rsv2 or rsv3 or (rsv1 and not cfg.compress):
            return _err(out, {1002}, "reserved bits", opt)
        if opcode not in (OP_CONT, OP_TEXT, OP_BINARY, OP_CLOSE, OP_PING, OP_PONG):
            return _err(out, {1002}, f"opcode {opcode}", opt)
        if control:
            if not fin:
                return _err(out, {1002}, "fragmented control frame", opt)
            if l7 > 125:
                return _err(out, {1002}, "control frame too long", opt)
            if rsv1:
                return _err(out, {1002}, "rsv1 on control frame", opt)
        rsv1_err = (not control) and rsv1 and (opcode == OP_CONT or frag_opcode is not None)
        if rsv1_err and length is None:
            return _err(out, {1002, 1009} if mx else {1002}, "rsv1 on a non-first fragment", opt)
        if length is None:
            break
        if rsv1_err:
            # several header-time violations may apply to one frame; their order is not specified
            over = mx and (frag_len + length >= mx or length >= mx)
            return _err(out, {1002, 1009} if over else {1002}, "rsv1 on a non-first fragment", opt)
        if cfg.strict_minimal and ((l7 == 126 and length < 126) or (l7 == 127 and length < 65536)):
            return _err(out, {1002}, f"non-minimal length encoding ({l7} for {length})", opt)
        if l7 == 127 and length >> 63:
            return _err(out, {1002, 1009}, "64-bit length with MSB set", opt)
        seq_err = ""
        if not control:
            if opcode == OP_CONT and frag_opcode is None:
                seq_err = "continuation without a started message"
            elif opcode != OP_CONT and frag_opcode is not None:
                seq_err = "new data frame inside a fragmented message"
            if mx and cfg.limit_on_wire:
                base = 0 if opcode != OP_CONT else frag_len
                tot = base + length
                if tot > mx or (cfg.eq_wire and tot == mx):
                    return _err(out, {1009, 1002} if seq_err else {1009}, "declared size over limit", opt)
        if not complete:
            if seq_err:
                return _err(out, {1002, 1009} if mx else {1002}, seq_err, True)
            break
        p = pos + 2 + ext
        if masked:
            payload = mask_bytes(stream[p:p + 4], stream[p + 4:p + 4 + length])
        else:
            payload = stream[p:p + length]
        pos += hdr_len + length
        out.consumed = pos
        if seq_err:
            return _err(out, {1002, 1009} if mx else {1002}, seq_err)
        if control:
            if opcode == OP_PING:
                out.messages.append(("ping", payload))
            elif opcode == OP_PONG:
                out.messages.append(("pong", payload))
            else:
                if len(payload) == 1:
                    return _err(out, {1002}, "1-byte close payload")
                if len(payload) >= 2:
                    (code,) = struct.unpack("!H", payload[:2])
                    if code not in VALID_CLOSE_CODES and not (3000 <= code <= 4999):
                        return _err(out, {1002}, f"close code {code}")
                    try:
                        reason = payload[2:].decode("utf-8")
                    except UnicodeDecodeError:
                        return _err(out, {1007}, "close reason not UTF-8")
                    out.messages.append(("close", code, reason))
                else:
                    out.messages.append(("close", 0, ""))
                out.closed = True
                return out
            continue
        # data frame
        if opcode != OP_CONT:
            frag_opcode = opcode
            frag_compressed = bool(rsv1)
            frag_parts = []
            frag_len = 0
        frag_parts.append(payload)
        frag_len += length
        if mx and not frag_compressed and (frag_len > mx or (cfg.eq_wire and frag_len == mx)):
            return _err(out, {1009}, "message over limit")
        if not fin:
            continue
        data = b"".join(frag_parts)
        mtype = frag_opcode
        frag_opcode = None
        frag_parts = []
        frag_len = 0
        if frag_compressed:
            if inflater is None or cfg.no_takeover:
                inflater = zlib.decompressobj(-15)
            try:
                if mx:
                    data = inflater.decompress(data + TAIL, mx + 1)
                    if len(data) > mx or (cfg.eq_inflated and len(data) == mx):
                        return _err(out, {1009}, "inflated message over limit")
                else:
                    data = inflater.decompress(data + TAIL)
            except zlib.error as e:
                return _err(out, set(), f"corrupt deflate data: {e}")
            if inflater.eof:
                # BFINAL block inside a message: outside the generated domain
                out.undecided = True
                return _err(out, set(), "deflate stream ended (BFINAL)", True)
        if mtype == OP_TEXT:
            if cfg.decode_text:
                try:
                    out.messages.append(("text", data.decode("utf-8")))
                except UnicodeDecodeError:
                    return _err(out, {1007}, "text not UTF-8")
            else:
                out.messages.append(("text", data))
        else:
            out.messages.append(("binary", data))
    return out
