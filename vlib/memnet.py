"""In-memory transports, a connector that uses them, and scripted peers.

MemTransport mirrors the parts of _SelectorSocketTransport that aiohttp relies
on: write()/writelines() append to a wire that delivers to the peer protocol's
data_received() in pieces taken from a segmentation plan, one piece per loop
iteration; close() flushes, then connection_lost(None) via call_soon and EOF to
the peer; abort(); is_closing(); pause_reading()/resume_reading() really stop
delivery; write-buffer high/low water with pause_writing()/resume_writing().
Every event is logged with a global sequence number.
"""
from __future__ import annotations

import asyncio
import itertools
from typing import Any, Callable

_seq = itertools.count()


class Plan:
    """Segmentation plan: sizes of successive deliveries (None = everything pending)."""

    def __init__(self, sizes=None, cycle: bool = True) -> None:
        self.sizes = list(sizes) if sizes else []
        self.cycle = cycle
        self.i = 0

    def next(self, pending: int) -> int:
        if not self.sizes:
            return pending
        if self.i >= len(self.sizes):
            if not self.cycle:
                return pending
            self.i = 0
        s = self.sizes[self.i]
        self.i += 1
        if s is None or s <= 0:
            return pending
        return min(s, pending)


class MemTransport(asyncio.Transport):
    def __init__(self, loop, name: str, log: list, plan: Plan | None = None, extra: dict | None = None,
                 high_water: int = 64 * 1024) -> None:
        super().__init__(extra or {})
        self.loop = loop
        self.name = name
        self.log = log
        self.protocol: Any = None
        self.peer: MemTransport | None = None
        self.out = bytearray()  # written by us, not yet delivered to the peer
        self.plan = plan or Plan()  # how OUR writes are cut up on their way to the peer
        self.closing = False
        self.closed = False
        self.lost_called = False
        self.reading_paused = False
        self.eof_sent = False
        self._pump_scheduled = False
        self._high = high_water
        self._low = high_water // 4
        self._writing_paused = False
        self.hold = False  # fault injection: stop delivering our writes (peer stalls / black hole)
        self.total_written = 0
        self.sent = bytearray()  # everything ever written (for oracles that look at the raw wire)
        self.total_delivered = 0
        self.write_calls = 0
        self.on_deliver: Callable[[bytes], None] | None = None
        self._close_pending = False  # close() called with unflushed writes: connection_lost() follows the flush
        self.burst = 1  # pieces handed to the peer back-to-back within one loop iteration (several reads per wake-up)

    # ---- bookkeeping
    def _ev(self, what: str, **kw) -> None:
        self.log.append((next(_seq), self.name, what, kw))

    # ---- asyncio.Transport API
    def get_protocol(self):
        return self.protocol

    def set_protocol(self, protocol) -> None:
        self.protocol = protocol

    def is_closing(self) -> bool:
        return self.closing

    def is_reading(self) -> bool:
        return not self.reading_paused and not self.closing

    def pause_reading(self) -> None:
        self.reading_paused = True
        self._ev("pause_reading")

    def resume_reading(self) -> None:
        if self.reading_paused:
            self._ev("resume_reading")
        self.reading_paused = False
        if self.peer is not None:
            self.peer._schedule_pump()

    def set_write_buffer_limits(self, high=None, low=None) -> None:
        if high is None:
            high = 64 * 1024 if low is None else 4 * low
        if low is None:
            low = high // 4
        self._high, self._low = high, low

    def get_write_buffer_size(self) -> int:
        return len(self.out)

    def get_write_buffer_limits(self):
        return (self._low, self._high)

    def can_write_eof(self) -> bool:
        return False

    def write(self, data) -> None:
        data = bytes(data)
        self.write_calls += 1
        if self.closing:
            self._ev("write_after_close", n=len(data))
            return
        if not data:
            return
        self.out += data
        self.sent += data
        self.total_written += len(data)
        self._ev("write", n=len(data))
        self._schedule_pump()
        if not self._writing_paused and len(self.out) > self._high:
            self._writing_paused = True
            try:
                self.protocol.pause_writing()
            except Exception as e:  # noqa: BLE001
                self.loop.call_exception_handler({"message": "pause_writing failed", "exception": e})

    def writelines(self, list_of_data) -> None:
        self.write(b"".join(bytes(d) for d in list_of_data))

    def close(self) -> None:
        if self.closing:
            return
        self.closing = True
        self._ev("close")
        # asyncio: connection_lost() is called once the write buffer has been flushed - at once when nothing is pending,
        # and not before the peer has taken the pending bytes otherwise (never, if it has stopped reading)
        if self.out and self.peer is not None and not self.peer.closed and not self.peer.lost_called:
            self._close_pending = True
        else:
            self._finish()
        self._schedule_pump()

    def abort(self) -> None:
        if self.closed and not self.out:
            return
        self.closing = True
        self._close_pending = False
        self._ev("abort")
        self.out.clear()
        self._finish()
        self._schedule_pump()

    # ---- internals
    def _finish(self) -> None:
        if self.closed:
            return
        self.closed = True
        self.loop.call_soon(self._call_connection_lost, None)
        if self.peer is not None:
            self.peer._schedule_pump()  # the other side may be waiting to flush into a connection that is gone now

    def _send_eof(self) -> None:
        peer = self.peer
        if peer is not None and not self.eof_sent:
            self.eof_sent = True
            self.loop.call_soon(peer._peer_eof)

    def _call_connection_lost(self, exc) -> None:
        if self.lost_called:
            return
        self.lost_called = True
        self._ev("connection_lost", exc=repr(exc))
        try:
            self.protocol.connection_lost(exc)
        except Exception as e:  # noqa: BLE001
            self.loop.call_exception_handler({"message": f"connection_lost raised on {self.name}", "exception": e})

    def _peer_eof(self) -> None:
        """The other side closed: we read EOF."""
        if self.closed:
            return
        self._ev("eof_received")
        keep = False
        try:
            keep = self.protocol.eof_received()
        except Exception as e:  # noqa: BLE001
            self.loop.call_exception_handler({"message": f"eof_received raised on {self.name}", "exception": e})
        if not keep:
            self.close()

    def reset_by_peer(self) -> None:
        """Fault injection: connection reset."""
        if self.closed:
            return
        self.closing = self.closed = True
        self.out.clear()
        self._ev("reset")
        self.loop.call_soon(self._call_connection_lost, ConnectionResetError("reset by peer"))

    def _schedule_pump(self) -> None:
        if not self._pump_scheduled:
            self._pump_scheduled = True
            self.loop.call_soon(self._pump)

    def _pump(self) -> None:
        """Deliver the next piece of our pending writes to the peer protocol."""
        self._pump_scheduled = False
        peer = self.peer
        if peer is None or self.hold:
            return
        k = 0
        while self.out and not peer.closed and not peer.reading_paused and not peer.lost_called and k < self.burst:
            k += 1
            n = self.plan.next(len(self.out))
            piece = bytes(self.out[:n])
            del self.out[:n]
            self.total_delivered += n
            peer._ev("data_received", n=n)
            if self.on_deliver is not None:
                self.on_deliver(piece)
            try:
                peer.protocol.data_received(piece)
            except Exception as e:  # noqa: BLE001
                # asyncio: an exception from data_received is fatal for the transport
                self.loop.call_exception_handler({"message": f"data_received raised on {peer.name}", "exception": e, "protocol": peer.protocol})
                peer.abort()
        if self.out and peer.closed:
            self.out.clear()  # nobody is there to read it
        if self._writing_paused and len(self.out) <= self._low:
            self._writing_paused = False
            try:
                self.protocol.resume_writing()
            except Exception as e:  # noqa: BLE001
                self.loop.call_exception_handler({"message": "resume_writing failed", "exception": e})
        if self.out:
            if not peer.reading_paused:
                self._schedule_pump()
        elif self.closing:
            if self._close_pending:
                self._close_pending = False
                self._finish()
            self._send_eof()


def pair(loop, log: list, a_name: str, b_name: str, a_plan: Plan | None = None, b_plan: Plan | None = None,
         a_extra: dict | None = None, b_extra: dict | None = None):
    a = MemTransport(loop, a_name, log, a_plan, a_extra)
    b = MemTransport(loop, b_name, log, b_plan, b_extra)
    a.peer, b.peer = b, a
    return a, b


class ScriptPeer(asyncio.Protocol):
    """The far end of a connection driven by the test: records what it receives."""

    def __init__(self) -> None:
        self.transport: MemTransport | None = None
        self.received = bytearray()
        self.eof = False
        self.lost = False
        self.on_data: Callable[[ScriptPeer, bytes], None] | None = None
        self.close_on_eof = True

    def connection_made(self, transport) -> None:
        self.transport = transport

    def data_received(self, data: bytes) -> None:
        self.received += data
        if self.on_data is not None:
            self.on_data(self, data)

    def eof_received(self):
        self.eof = True
        return not self.close_on_eof

    def connection_lost(self, exc) -> None:
        self.lost = True

    def pause_writing(self) -> None:
        pass

    def resume_writing(self) -> None:
        pass

    def send(self, data: bytes) -> None:
        assert self.transport is not None
        self.transport.write(data)

    def close(self) -> None:
        if self.transport is not None:
            self.transport.close()


def connect_protocols(loop, log, client_proto, server_proto, name: str = "c0", c2s: Plan | None = None, s2c: Plan | None = None,
                      client_extra: dict | None = None, server_extra: dict | None = None):
    """Wire two protocol objects together; connection_made is called on both (server first)."""
    ct, st_ = pair(loop, log, f"{name}.client", f"{name}.server", c2s, s2c,
                   client_extra or {"peername": ("127.0.0.1", 80)}, server_extra or {"peername": ("127.0.0.1", 54321)})
    ct.protocol, st_.protocol = client_proto, server_proto
    server_proto.connection_made(st_)
    client_proto.connection_made(ct)
    return ct, st_


def make_connector_class():
    """Build MemConnector lazily (aiohttp must be importable from the tree under test)."""
    from aiohttp.connector import BaseConnector

    class MemConnector(BaseConnector):
        """BaseConnector whose _create_connection() builds an in-memory connection.

        peer_factory(req, index) -> (protocol for the far end, c2s Plan, s2c Plan)
        connect_gate(req, index) -> awaitable|None: lets the harness delay/fail/stall the attempt
        """

        def __init__(self, peer_factory, *, log=None, connect_gate=None, **kw) -> None:
            super().__init__(**kw)
            self.peer_factory = peer_factory
            self.connect_gate = connect_gate
            self.log = log if log is not None else []
            self.transports: list[tuple[MemTransport, MemTransport]] = []  # (client side, server side)
            self.attempts = 0
            self.requests_by_conn: list[list] = []

        async def _create_connection(self, req, traces, timeout):
            idx = self.attempts
            self.attempts += 1
            if self.connect_gate is not None:
                res = self.connect_gate(req, idx)
                if res is not None:
                    await res
            proto = self._factory()
            far, c2s, s2c = self.peer_factory(req, idx)
            ct, st_ = connect_protocols(self._loop, self.log, proto, far, name=f"conn{idx}", c2s=c2s, s2c=s2c)
            ct.key = getattr(req, "connection_key", None)
            self.transports.append((ct, st_))
            return proto

    return MemConnector
