"""JSON encoding that survives bytes/tuples/sets so cases can be written to
replay / regress files and read back as the same Python values."""
from __future__ import annotations

import json
from typing import Any


def enc(o: Any) -> Any:
    if isinstance(o, (bytes, bytearray, memoryview)):
        return {"$b": bytes(o).decode("latin-1")}
    if isinstance(o, tuple):
        return {"$t": [enc(x) for x in o]}
    if isinstance(o, (set, frozenset)):
        return {"$s": sorted((enc(x) for x in o), key=lambda v: json.dumps(v, sort_keys=True))}
    if isinstance(o, dict):
        if all(isinstance(k, str) for k in o):
            return {k: enc(v) for k, v in o.items()}
        return {"$d": [[enc(k), enc(v)] for k, v in o.items()]}
    if isinstance(o, list):
        return [enc(x) for x in o]
    if isinstance(o, float):
        if o != o or o in (float("inf"), float("-inf")):
            return {"$f": repr(o)}
        return o
    if o is None or isinstance(o, (str, int, bool)):
        return o
    return {"$r": repr(o)}


def dec(o: Any) -> Any:
    if isinstance(o, list):
        return [dec(x) for x in o]
    if isinstance(o, dict):
        if len(o) == 1:
            (k, v), = o.items()
            if k == "$b":
                return v.encode("latin-1")
            if k == "$t":
                return tuple(dec(x) for x in v)
            if k == "$s":
                return frozenset(dec(x) for x in v)
            if k == "$d":
                return {dec(a): dec(b) for a, b in v}
            if k == "$f":
                return float(v)
            if k == "$r":
                return v
        return {k: dec(v) for k, v in o.items()}
    return o


def dumps(o: Any, **kw: Any) -> str:
    return json.dumps(enc(o), ensure_ascii=True, **kw)


def loads(s: str) -> Any:
    return dec(json.loads(s))


def canon(o: Any) -> str:
    return json.dumps(enc(o), sort_keys=True, ensure_ascii=True, separators=(",", ":"))


def brief(o: Any, limit: int = 600) -> Any:
    """A sample for evidence files: the encoded case, truncated if huge."""
    s = dumps(o)
    if len(s) <= limit:
        return enc(o)
    return {"$truncated": s[:limit], "len": len(s)}
