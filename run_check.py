#!/venv/bin/python
"""Entry point: run_check.py <Cxx> [--tier quick|thorough] [--replay path] [--jobs N]

exit 0 = property held on everything explored
exit 1 = VIOLATION line(s) printed (not listed in known_findings.json)
exit 2 = harness error (never a violation)
"""
from __future__ import annotations

import argparse
import glob
import importlib
import os
import subprocess
import sys

HERE = os.path.dirname(os.path.abspath(__file__))
ENV = {
    "PYTHONHASHSEED": "0",
    "PYTHONDONTWRITEBYTECODE": "1",
    "AIOHTTP_NO_EXTENSIONS": "1",
    "AIOHTTP_NOSENDFILE": "1",
}


def ensure_env() -> None:
    if any(os.environ.get(k) != v for k, v in ENV.items()):
        env = dict(os.environ)
        env.update(ENV)
        os.execve(sys.executable, [sys.executable] + sys.argv, env)


def ensure_deps() -> None:
    try:
        import hypothesis  # noqa: F401
    except ImportError:
        deps = os.path.join(HERE, ".deps")
        if not os.path.isdir(os.path.join(deps, "hypothesis")):
            subprocess.run(
                [sys.executable, "-m", "pip", "install", "-q", "--no-index", "--find-links",
                 "/opt/veriftools/wheels", "--target", deps, "hypothesis"],
                check=False,
            )
        sys.path.append(deps)
    deps = os.path.join(HERE, ".deps")
    if os.path.isdir(deps) and deps not in sys.path:
        sys.path.append(deps)


def main() -> int:
    ensure_env()
    ap = argparse.ArgumentParser()
    ap.add_argument("prop")
    ap.add_argument("--tier", default=os.environ.get("VERIF_TIER", "quick"), choices=["quick", "thorough"])
    ap.add_argument("--replay")
    ap.add_argument("--jobs", type=int, default=int(os.environ.get("VERIF_JOBS", "16")))
    a = ap.parse_args()
    seed = int(os.environ.get("VERIF_SEED", "1") or "1")

    repo = os.path.abspath(os.environ.get("VERIF_REPO", "/repo"))
    sys.path.insert(0, repo)
    sys.path.insert(1, HERE)
    ensure_deps()
    try:
        import aiohttp

        if not os.path.abspath(aiohttp.__file__).startswith(repo + os.sep):
            print(f"HARNESS-ERROR: aiohttp imported from {aiohttp.__file__}, not {repo}", file=sys.stderr)
            return 2
        from aiohttp import http_parser

        if http_parser.HttpRequestParser is not http_parser.HttpRequestParserPy:
            print("HARNESS-ERROR: C parser active", file=sys.stderr)
            return 2
    except Exception:
        import traceback

        traceback.print_exc()
        print("HARNESS-ERROR: cannot import aiohttp from the working tree", file=sys.stderr)
        return 2

    import logging

    logging.disable(logging.CRITICAL)  # aiohttp logs every provoked error; the checks judge by their own oracles

    from vlib import runner

    pid = a.prop.upper()
    mods = glob.glob(os.path.join(HERE, "checks", f"{pid.lower()}_*.py"))
    if len(mods) != 1:
        print(f"HARNESS-ERROR: no unique check module for {pid}", file=sys.stderr)
        return 2
    mod = importlib.import_module("checks." + os.path.basename(mods[0])[:-3])
    # scratch files of the units (served directories, cookie files, request bodies) live in a directory of this run and go
    # with it: nothing is left behind under /tmp (workers are forked after this point and inherit the setting)
    import shutil
    import tempfile

    run_tmp = tempfile.mkdtemp(prefix=f"verif_{pid}_")
    tempfile.tempdir = run_tmp
    os.environ["TMPDIR"] = run_tmp
    try:
        if a.replay:
            return runner.run_replay(mod, a.replay)
        return runner.run_check(mod, a.tier, seed, a.jobs)
    except Exception:
        import traceback

        traceback.print_exc()
        print(f"HARNESS-ERROR property={pid}", file=sys.stderr)
        return 2
    finally:
        tempfile.tempdir = None
        shutil.rmtree(run_tmp, ignore_errors=True)


if __name__ == "__main__":
    sys.exit(main())
